#!/usr/bin/env python3
"""Greedy structural shrinker for replay files (debugging aid): removes stages / shortens inputs while
`vrun replay` still reports a violation."""
import json,sys,subprocess,copy,os
id_,path=sys.argv[1],sys.argv[2]
d=json.load(open(path))
tmp=path+'.shrink.json'
def fails(dd):
    json.dump(dd,open(tmp,'w'))
    try:
        r=subprocess.run(['/verif/harness/target/release/vrun','replay',id_,tmp],capture_output=True,text=True,timeout=120)
    except subprocess.TimeoutExpired:
        return False
    global SIG
    if r.returncode!=1: return False
    sig=r.stdout.strip().split('\n')[0][:60]
    if SIG is None: SIG=sig
    return sig==SIG
SIG=None
def stage_lists(job):
    out=[]
    def walk(stages):
        out.append(stages)
        for s in stages:
            if isinstance(s,dict):
                k=list(s.keys())[0]; v=s[k]
                if k=='Fork': walk(v['branch'])
                elif k=='Diamond': walk(v['left']); walk(v['right'])
                elif k=='With': walk(v['other']['stages'])
                elif k=='Route':
                    for b in v['branches']: walk(b)
                elif k in('Replay','Iterate'): walk(v['body'])
    walk(job['pipe']['stages'])
    return out
def sources(job):
    out=[job['pipe']['source']]
    def walk(stages):
        for s in stages:
            if isinstance(s,dict):
                k=list(s.keys())[0]; v=s[k]
                if k=='Fork': walk(v['branch'])
                elif k=='Diamond': walk(v['left']); walk(v['right'])
                elif k=='With': out.append(v['other']['source']); walk(v['other']['stages'])
                elif k=='Route':
                    for b in v['branches']: walk(b)
                elif k in('Replay','Iterate'): walk(v['body'])
    walk(job['pipe']['stages'])
    return out
assert fails(d), "does not fail"
changed=True
while changed:
    changed=False
    n=len(stage_lists(d['job']))
    for li in range(n):
        i=0
        while True:
            lists=stage_lists(d['job'])
            if li>=len(lists) or i>=len(lists[li]): break
            c=copy.deepcopy(d)
            l2=stage_lists(c['job'])[li]
            del l2[i]
            if fails(c):
                d=c; changed=True
            else:
                i+=1
    for si in range(len(sources(d['job']))):
        while True:
            c=copy.deepcopy(d)
            s=sources(c['job'])[si]; k=list(s.keys())[0]
            if k=='Range':
                a,b=s[k]
                if b-a<=1: break
                s[k]=[a,a+(b-a)//2]
            else:
                if len(s[k])<=1: break
                s[k]=s[k][:len(s[k])//2]
            if fails(c): d=c; changed=True
            else: break
    for cfg in d['configs']:
        for key in ('delays','batch'):
            if cfg.get(key) is not None:
                c=copy.deepcopy(d)
                for cc in c['configs']: cc[key]=None
                if fails(c): d=c; changed=True
os.remove(tmp)
json.dump(d,open(path+'.min.json','w'),indent=1)
print(json.dumps(d))
