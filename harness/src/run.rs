//! Running one job on the real engine: local or simulated multi-host (one thread per host over
//! loopback TCP), under a quiescence watchdog.
use std::sync::atomic::Ordering;
use std::sync::mpsc;
use std::sync::Arc;
use std::time::{Duration, Instant};

use renoir::config::{ConfigBuilder, HostConfig};
use renoir::{RuntimeConfig, StreamContext};
use serde::{Deserialize, Serialize};

use crate::obs::{self, ep_str, loc_str, JobCtx, ParkOp};

#[derive(Clone, Debug, PartialEq, Eq, Hash, Serialize, Deserialize)]
pub enum Layout {
    Local(u64),
    Hosts(Vec<u64>),
}

impl Layout {
    pub fn n_hosts(&self) -> usize {
        match self {
            Layout::Local(_) => 1,
            Layout::Hosts(h) => h.len(),
        }
    }
    pub fn cores(&self) -> Vec<u64> {
        match self {
            Layout::Local(p) => vec![*p],
            Layout::Hosts(h) => h.clone(),
        }
    }
    pub fn total_cores(&self) -> u64 {
        self.cores().iter().sum()
    }
    pub fn is_remote(&self) -> bool {
        matches!(self, Layout::Hosts(_))
    }
}

/// Unique loopback addresses per (shard, job).
#[derive(Clone, Copy, Debug)]
pub struct AddrSeed {
    pub shard: u32,
    pub job: u64,
}

/// A number unique among the `vrun` processes alive on this machine, claimed by holding a
/// listening socket on 127.0.0.9:(1100 + n) for the life of the process. Two processes that ran
/// jobs on the same loopback addresses at the same time (a background sweep next to a manual run)
/// made the engine's `bind` fail with AddrInUse, which surfaced as a host panic of the job.
pub fn process_slot() -> u64 {
    static SLOT: std::sync::OnceLock<(u64, Option<std::net::TcpListener>)> = std::sync::OnceLock::new();
    SLOT.get_or_init(|| {
        // a host process of a multi-process job uses the addresses of the process that spawned it
        if let Some(n) = std::env::var("VERIF_ADDR_SLOT").ok().and_then(|s| s.parse::<u64>().ok()) {
            return (n % 240, None);
        }
        for n in 0..240u64 {
            if let Ok(l) = std::net::TcpListener::bind(("127.0.0.9", 1100 + n as u16)) {
                return (n, Some(l));
            }
        }
        (std::process::id() as u64 % 240, None)
    })
    .0
}

pub fn host_configs(layout: &Layout, seed: AddrSeed) -> Vec<RuntimeConfig> {
    match layout {
        Layout::Local(p) => vec![RuntimeConfig::local(*p).unwrap()],
        Layout::Hosts(cores) => {
            let _ = seed.shard;
            let b = 10 + process_slot();
            let c = 1 + (seed.job % 250);
            // concurrent `vrun check` processes (e.g. a background sweep) get disjoint port ranges
            let run_id: u64 = std::env::var("VERIF_RUN_ID").ok().and_then(|s| s.parse().ok()).unwrap_or(0) % 12;
            // below the ephemeral port range (32768..), so that the listeners never compete with the
            // source ports of outgoing connections
            let base_port = (2100 + run_id * 2500 + ((seed.job / 250) * 211 % 2200)) as u16;
            let hosts: Vec<HostConfig> = cores
                .iter()
                .enumerate()
                .map(|(i, &n)| HostConfig {
                    address: format!("127.{}.{}.{}", b, c, i + 1),
                    base_port,
                    num_cores: n,
                    ssh: Default::default(),
                    perf_path: None,
                })
                .collect();
            (0..cores.len())
                .map(|i| {
                    ConfigBuilder::new_remote()
                        .add_hosts(&hosts)
                        .host_id(i as u64)
                        .build()
                        .unwrap()
                })
                .collect()
        }
    }
}

#[derive(Debug)]
pub enum HostOutcome<R> {
    Done(R),
    Panicked(String),
}

#[derive(Debug)]
pub struct Deadlock {
    pub diagnosis: String,
    /// replicas parked in a channel operation: (who, op, endpoint)
    pub parked: Vec<(renoir::verif::Loc, ParkOp, renoir::verif::Endpoint)>,
    pub live: usize,
}

#[derive(Debug)]
pub enum JobOutcome<R> {
    /// every host thread ended (normally or by panic)
    Finished(Vec<HostOutcome<R>>),
    /// no progress for the quiescence window while workers are alive
    Deadlock(Deadlock),
    /// budget exhausted while events were still flowing
    Inconclusive(String),
}

#[derive(Clone, Copy, Debug)]
pub struct Watchdog {
    pub quiescence: Duration,
    pub budget: Duration,
}

impl Default for Watchdog {
    fn default() -> Self {
        Watchdog {
            quiescence: Duration::from_secs(10),
            budget: Duration::from_secs(90),
        }
    }
}

/// The quiescence window is scaled with the load of the machine (1 min load average per core,
/// clamped to 1..6): on an oversubscribed box TCP connects back off and threads starve for seconds,
/// which must not look like a deadlock.
pub fn load_factor() -> f64 {
    let cores = std::thread::available_parallelism().map(|n| n.get()).unwrap_or(1) as f64;
    std::fs::read_to_string("/proc/loadavg")
        .ok()
        .and_then(|s| s.split_whitespace().next().and_then(|x| x.parse::<f64>().ok()))
        .map(|l| (l / cores).clamp(1.0, 6.0))
        .unwrap_or(1.0)
}

fn cpu_ticks() -> u64 {
    std::fs::read_to_string("/proc/self/stat")
        .ok()
        .and_then(|s| {
            let rest = s.rsplit_once(')')?.1.to_string();
            let f: Vec<&str> = rest.split_whitespace().collect();
            Some(f.get(11)?.parse::<u64>().ok()? + f.get(12)?.parse::<u64>().ok()?)
        })
        .unwrap_or(0)
}

pub type Collector<R> = Box<dyn FnOnce() -> R + Send>;
pub type BuildFn<R> = Arc<dyn Fn(&StreamContext, usize) -> Collector<R> + Send + Sync>;

/// Run one job. `build` is called once per host with a fresh `StreamContext` and must register the
/// whole job; the closure it returns is called after `execute_blocking` to collect the sinks.
pub fn run_job<R: Send + 'static>(
    layout: &Layout,
    seed: AddrSeed,
    ctx: Arc<JobCtx>,
    build: BuildFn<R>,
    wd: Watchdog,
) -> JobOutcome<R> {
    obs::install(ctx.clone());
    let configs = host_configs(layout, seed);
    let n = configs.len();
    let (tx, rx) = mpsc::channel::<(usize, HostOutcome<R>)>();
    for (i, config) in configs.into_iter().enumerate() {
        let build = build.clone();
        let tx = tx.clone();
        std::thread::Builder::new()
            .name(format!("host{i}"))
            .spawn({
                let ctx = ctx.clone();
                move || {
                obs::adopt(Some(ctx.clone()));
                let ctx3 = ctx.clone();
                let res = std::panic::catch_unwind(std::panic::AssertUnwindSafe(|| {
                    let env = StreamContext::new(config);
                    let collect = build(&env, i);
                    match std::panic::catch_unwind(std::panic::AssertUnwindSafe(|| env.execute_blocking())) {
                        Ok(()) => Ok(collect()),
                        Err(e) => {
                            // the run failed: read the sinks all the same (they must be empty)
                            if let Ok(r) = std::panic::catch_unwind(std::panic::AssertUnwindSafe(collect)) {
                                ctx3.post_panic.lock().unwrap().push((i, Box::new(r)));
                            }
                            Err(e)
                        }
                    }
                }));
                let out = match res {
                    Ok(Ok(r)) => HostOutcome::Done(r),
                    Ok(Err(e)) | Err(e) => HostOutcome::Panicked(panic_msg(&e)),
                };
                let _ = tx.send((i, out));
            }})
            .unwrap();
    }
    drop(tx);

    let start = Instant::now();
    let wd = Watchdog {
        quiescence: wd.quiescence.mul_f64(load_factor()),
        budget: wd.budget.mul_f64(load_factor()),
    };
    let mut results: Vec<Option<HostOutcome<R>>> = (0..n).map(|_| None).collect();
    let mut got = 0;
    let mut last_events = ctx.events.load(Ordering::Relaxed);
    let mut last_change = Instant::now();
    let mut last_cpu = cpu_ticks();
    let mut cpu_at_change = Instant::now();
    while got < n {
        match rx.recv_timeout(Duration::from_millis(50)) {
            Ok((i, out)) => {
                results[i] = Some(out);
                got += 1;
                last_change = Instant::now();
            }
            Err(mpsc::RecvTimeoutError::Timeout) => {
                let ev = ctx.events.load(Ordering::Relaxed);
                if ev != last_events {
                    last_events = ev;
                    last_change = Instant::now();
                }
                let cpu = cpu_ticks();
                if cpu.saturating_sub(last_cpu) >= 5 {
                    // >= 50 ms of CPU: something is computing
                    last_cpu = cpu;
                    cpu_at_change = Instant::now();
                }
                let quiet = last_change.elapsed() >= wd.quiescence;
                if quiet && !ctx.idle_ok.load(Ordering::Relaxed) {
                    let w = ctx.workers.lock().unwrap();
                    let live = w.live.len();
                    // no worker has started yet (slow start on a loaded machine): not a deadlock
                    let not_started = w.started.is_empty();
                    let all_parked = w.live.iter().all(|l| w.parked.contains_key(l));
                    let cpu_flat = cpu_at_change.elapsed() >= wd.quiescence;
                    // all workers ended but a host has not returned: no hook fires during the teardown
                    // (joins of the network threads), so silence alone is weak evidence - wait longer
                    let teardown = live == 0 && !not_started;
                    let teardown_ok = !teardown || last_change.elapsed() >= Duration::from_secs(40);
                    if !not_started && teardown_ok && (all_parked || cpu_flat) {
                        let mut parked: Vec<_> =
                            w.parked.iter().map(|(l, (op, ep))| (*l, *op, *ep)).collect();
                        parked.sort();
                        let queues = ctx.link_counts.lock().unwrap();
                        let mut d = format!(
                            "no engine event for {:?}; {} live workers, {} parked in a channel operation; hosts finished {}/{}\n",
                            wd.quiescence, live, parked.len(), got, n
                        );
                        for (l, op, ep) in &parked {
                            d.push_str(&format!(
                                "  {} parked in {:?} on {}\n",
                                loc_str(*l),
                                op,
                                ep_str(*ep)
                            ));
                        }
                        drop(queues);
                        drop(w);
                        {
                            let p = ctx.panics.lock().unwrap();
                            if !p.is_empty() {
                                d.push_str(&format!("  panics of the job so far: {:?}\n", &p[..p.len().min(4)]));
                            }
                        }
                        // release anything held by the gate so that threads can unwind if possible
                        ctx.gate_open();
                        return JobOutcome::Deadlock(Deadlock {
                            diagnosis: d,
                            parked,
                            live,
                        });
                    }
                }
                if start.elapsed() >= wd.budget {
                    ctx.gate_open();
                    return JobOutcome::Inconclusive(format!(
                        "budget of {:?} exhausted, events still flowing ({} so far)",
                        wd.budget, ev
                    ));
                }
            }
            Err(mpsc::RecvTimeoutError::Disconnected) => break,
        }
    }
    // The observer stays installed: workers still unwinding report to this job's context. After a
    // panic the host threads return while worker threads may not even have started running yet:
    // wait until the set of workers is stable and all of them ended (bounded), so that no straggler
    // reports into the context of the next job.
    if results.iter().any(|r| matches!(r, Some(HostOutcome::Panicked(_)))) {
        let deadline = Instant::now() + wd.quiescence.min(Duration::from_secs(8));
        let mut stable_since = Instant::now();
        let mut last_started = usize::MAX;
        loop {
            let (started, live) = {
                let w = ctx.workers.lock().unwrap();
                (w.started.len(), w.live.len())
            };
            if started != last_started {
                last_started = started;
                stable_since = Instant::now();
            }
            if live == 0 && stable_since.elapsed() >= Duration::from_millis(120) {
                break;
            }
            if Instant::now() > deadline {
                break;
            }
            std::thread::sleep(Duration::from_millis(10));
        }
    }
    JobOutcome::Finished(
        results
            .into_iter()
            .map(|r| r.unwrap_or_else(|| HostOutcome::Panicked("host thread vanished".into())))
            .collect(),
    )
}

pub fn panic_msg(e: &Box<dyn std::any::Any + Send>) -> String {
    if let Some(s) = e.downcast_ref::<&str>() {
        s.to_string()
    } else if let Some(s) = e.downcast_ref::<String>() {
        s.clone()
    } else {
        "<non-string panic>".to_string()
    }
}
