//! Type-erased operator chains, so that randomly composed pipelines have one Rust type.
use std::fmt::{Display, Formatter};

use renoir::operator::{Operator, StreamElement};
use renoir::structure::BlockStructure;
use renoir::{ExecutionMetadata, Stream};

pub trait DynOperator<T>: Send {
    fn dyn_setup(&mut self, metadata: &mut ExecutionMetadata);
    fn dyn_next(&mut self) -> StreamElement<T>;
    fn dyn_structure(&self) -> BlockStructure;
    fn dyn_clone(&self) -> Box<dyn DynOperator<T>>;
    fn dyn_fmt(&self, f: &mut Formatter<'_>) -> std::fmt::Result;
}

impl<T: Send, O> DynOperator<T> for O
where
    O: Operator<Out = T> + 'static,
{
    fn dyn_setup(&mut self, metadata: &mut ExecutionMetadata) {
        self.setup(metadata)
    }
    fn dyn_next(&mut self) -> StreamElement<T> {
        self.next()
    }
    fn dyn_structure(&self) -> BlockStructure {
        self.structure()
    }
    fn dyn_clone(&self) -> Box<dyn DynOperator<T>> {
        Box::new(self.clone())
    }
    fn dyn_fmt(&self, f: &mut Formatter<'_>) -> std::fmt::Result {
        Display::fmt(self, f)
    }
}

pub struct DynOp<T>(Box<dyn DynOperator<T>>);

impl<T> Clone for DynOp<T> {
    fn clone(&self) -> Self {
        DynOp(self.0.dyn_clone())
    }
}

impl<T> Display for DynOp<T> {
    fn fmt(&self, f: &mut Formatter<'_>) -> std::fmt::Result {
        self.0.dyn_fmt(f)
    }
}

impl<T: Send + 'static> Operator for DynOp<T> {
    type Out = T;
    fn setup(&mut self, metadata: &mut ExecutionMetadata) {
        self.0.dyn_setup(metadata)
    }
    fn next(&mut self) -> StreamElement<T> {
        self.0.dyn_next()
    }
    fn structure(&self) -> BlockStructure {
        self.0.dyn_structure()
    }
}

pub type DStream<T> = Stream<DynOp<T>>;

/// Erase the type of the operator chain of the last block of a stream.
pub fn erase<O>(s: Stream<O>) -> DStream<O::Out>
where
    O: Operator + 'static,
    O::Out: Send + 'static,
{
    s.add_operator(|prev| DynOp(Box::new(prev)))
}
