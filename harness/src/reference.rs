//! Sequential reference interpreter: the meaning of a `JobSpec` over the whole input, with
//! multiset semantics at every node and the do-while semantics of loops.
//!
//! It allocates probe ids and sink ids in exactly the order `build.rs` does.
use std::collections::{BTreeMap, HashMap};

use crate::build::{keyed_out, seq_hash};
use crate::rec::{mix_pair, route_pred, LoopState, Rec};
use crate::spec::*;

pub type Obs = (i64, usize);

#[derive(Clone, Debug, PartialEq, Eq, serde::Serialize)]
pub enum RefSink {
    /// sorted multiset
    Items(Vec<Obs>),
    Count(usize),
}

#[derive(Clone, Debug, Default, serde::Serialize)]
pub struct RefOut {
    pub sinks: Vec<(SinkKind, RefSink)>,
    /// the elements of every sink in the order the sequential evaluation produces them
    pub ordered_sinks: Vec<Vec<Obs>>,
    /// per probe id: one sorted multiset per iteration observed at that point
    pub probes: BTreeMap<u32, Vec<Vec<Obs>>>,
    /// per loop (in order of first execution): number of rounds of each execution
    pub loop_rounds: Vec<Vec<u32>>,
    /// per loop-in probe id: for each iteration, the state the body must observe
    pub loop_states: BTreeMap<u32, Vec<(u32, i64)>>,
    /// an upper bound of the largest intermediate cardinality
    pub max_card: usize,
}

pub struct Reference {
    cores: Vec<u64>,
    next_probe: u32,
    out: RefOut,
    states: Vec<LoopState>,
    side_cache: HashMap<u32, (Vec<Rec>, u32)>,
    loop_index: HashMap<u32, usize>,
    /// cap on intermediate cardinalities: evaluation is abandoned beyond it
    cap: usize,
    pub overflow: bool,
}

fn sorted(v: &[Rec]) -> Vec<Obs> {
    let mut o: Vec<Obs> = v.iter().map(|r| r.obs()).collect();
    o.sort_unstable();
    o
}

pub fn evaluate(job: &JobSpec, cores: &[u64], cap: usize) -> Option<RefOut> {
    let mut r = Reference {
        cores: cores.to_vec(),
        next_probe: 0,
        out: RefOut::default(),
        states: Vec::new(),
        side_cache: HashMap::new(),
        loop_index: HashMap::new(),
        cap,
        overflow: false,
    };
    let v = r.pipe(&job.pipe);
    r.sink(v, job.sink);
    if r.overflow {
        None
    } else {
        Some(r.out)
    }
}

impl Reference {
    fn tap(&mut self, v: &[Rec]) -> u32 {
        let id = self.next_probe;
        self.next_probe += 1;
        if v.len() > self.cap {
            self.overflow = true;
        }
        self.out.max_card = self.out.max_card.max(v.len());
        if !self.overflow {
            self.out.probes.entry(id).or_default().push(sorted(v));
            if let Some(st) = self.states.last() {
                // every probe inside a loop body must observe the state of the previous round
                self.out.loop_states.entry(id).or_default().push((st.round, st.acc));
            }
        }
        id
    }

    fn sink(&mut self, v: Vec<Rec>, kind: SinkKind) {
        let r = match kind {
            SinkKind::CollectCount => RefSink::Count(v.len()),
            _ => RefSink::Items(sorted(&v)),
        };
        self.out.ordered_sinks.push(v.iter().map(|r| r.obs()).collect());
        self.out.sinks.push((kind, r));
    }

    fn pipe(&mut self, p: &Pipe) -> Vec<Rec> {
        let v = p.source.items();
        self.tap(&v);
        self.stages(v, &p.stages)
    }

    fn stages(&mut self, mut v: Vec<Rec>, stages: &[Stage]) -> Vec<Rec> {
        for st in stages {
            if self.overflow {
                // keep allocating nothing: the result is discarded anyway
                return Vec::new();
            }
            v = self.stage(v, st);
        }
        v
    }

    fn key(v: i64, k: i64) -> i64 {
        v.rem_euclid(k.max(1))
    }

    fn combine(&mut self, l: Vec<Rec>, r: Vec<Rec>, comb: &Combine) -> Vec<Rec> {
        match *comb {
            Combine::Merge => {
                let mut l = l;
                l.extend(r);
                l
            }
            Combine::ZipCount => vec![Rec::new(1); l.len().min(r.len())],
            Combine::Zip => l
                .iter()
                .zip(r.iter())
                .map(|(a, b)| Rec::new(mix_pair(Some(a.v), Some(b.v))))
                .collect(),
            Combine::Join(_, JoinAlgo::KeyedAfterAgg, k) => {
                let mut counts: HashMap<i64, i64> = HashMap::new();
                for a in &l {
                    *counts.entry(Self::key(a.v, k)).or_default() += 1;
                }
                r.iter()
                    .filter_map(|b| counts.get(&Self::key(b.v, k)).map(|c| Rec::new(mix_pair(Some(*c), Some(b.v)))))
                    .collect()
            }
            Combine::Join(kind, algo, k) => {
                // the broadcast-right and keyed algorithms do not offer every variant
                let kind = match (algo, kind) {
                    (JoinAlgo::BcHash | JoinAlgo::BcSortMerge, JoinKind::Outer) => JoinKind::Left,
                    (JoinAlgo::Keyed, JoinKind::Left) => JoinKind::Outer,
                    (_, k) => k,
                };
                let mut by_key: HashMap<i64, Vec<i64>> = HashMap::new();
                for b in &r {
                    by_key.entry(Self::key(b.v, k)).or_default().push(b.v);
                }
                let est: usize = l
                    .iter()
                    .map(|a| by_key.get(&Self::key(a.v, k)).map_or(1, |m| m.len()))
                    .sum();
                if est > self.cap {
                    self.overflow = true;
                    return Vec::new();
                }
                let mut out = Vec::new();
                let mut matched_keys: HashMap<i64, bool> = HashMap::new();
                for a in &l {
                    let ka = Self::key(a.v, k);
                    match by_key.get(&ka) {
                        Some(ms) => {
                            matched_keys.insert(ka, true);
                            for &b in ms {
                                out.push(Rec::new(mix_pair(Some(a.v), Some(b))));
                            }
                        }
                        None => {
                            if kind != JoinKind::Inner {
                                out.push(Rec::new(mix_pair(Some(a.v), None)));
                            }
                        }
                    }
                }
                if kind == JoinKind::Outer {
                    for b in &r {
                        if !matched_keys.contains_key(&Self::key(b.v, k)) {
                            out.push(Rec::new(mix_pair(None, Some(b.v))));
                        }
                    }
                }
                out
            }
        }
    }

    fn group(v: &[Rec], k: i64) -> BTreeMap<i64, Vec<i64>> {
        let mut m: BTreeMap<i64, Vec<i64>> = BTreeMap::new();
        for r in v {
            m.entry(Self::key(r.v, k)).or_default().push(r.v);
        }
        m
    }

    fn run_loop(&mut self, input: Vec<Rec>, l: &LoopSpec, iterate: bool) -> (LoopState, Vec<Rec>) {
        let start_id = self.next_probe;
        let li = {
            let n = self.loop_index.len();
            *self.loop_index.entry(start_id).or_insert(n)
        };
        if self.out.loop_rounds.len() <= li {
            self.out.loop_rounds.resize(li + 1, Vec::new());
        }
        let mut state = LoopState { round: 0, acc: l.init_acc };
        let mut cur = input.clone();
        let mut k = 0u32;
        let mut end_id;
        let mut last_out;
        loop {
            k += 1;
            self.next_probe = start_id;
            self.states.push(state.clone());
            let inp = if iterate { cur.clone() } else { input.clone() };
            self.tap(&inp);
            let out = self.stages(inp, &l.body);
            self.states.pop();
            end_id = self.next_probe;
            // local folds + global fold: a monoid action, so the partitioning is irrelevant
            let delta = out
                .iter()
                .fold(0i64, |d, x| d.wrapping_add(x.v.rem_euclid(1009)));
            state.acc = state.acc.wrapping_add(delta);
            // loop condition (mutates the state)
            state.round += 1;
            let cond = state.round < l.stop_after as u32 && l.stop_acc.map_or(true, |t| state.acc < t);
            let more = (k as usize) < l.max as usize;
            last_out = out.clone();
            cur = out;
            if !(cond && more) || self.overflow {
                break;
            }
        }
        self.next_probe = end_id;
        self.out.loop_rounds[li].push(k);
        (state, last_out)
    }

    fn stage(&mut self, v: Vec<Rec>, st: &Stage) -> Vec<Rec> {
        let acc = self.states.last().map_or(0, |s| s.acc);
        let out: Vec<Rec> = match st {
            Stage::Map(f) => v
                .into_iter()
                .map(|mut r| {
                    r.v = f.apply(r.v, acc);
                    r
                })
                .collect(),
            Stage::Filter(f) => v.into_iter().filter(|r| f.keep(r.v, acc)).collect(),
            Stage::FlatMap(f) => {
                let mut out = Vec::new();
                for r in &v {
                    out.extend(f.apply(r.v).into_iter().map(Rec::new));
                    if out.len() > self.cap {
                        self.overflow = true;
                        break;
                    }
                }
                out
            }
            Stage::FilterMap(f, g) => v
                .into_iter()
                .filter(|r| f.keep(r.v, 0))
                .map(|mut r| {
                    r.v = g.apply(r.v, 0);
                    r
                })
                .collect(),
            Stage::RichIndex => v
                .into_iter()
                .enumerate()
                .map(|(i, mut r)| {
                    r.v = r.v.wrapping_mul(31).wrapping_add(i as i64);
                    r
                })
                .collect(),
            Stage::Shuffle | Stage::Replicate(_) | Stage::Repartition(..) | Stage::Batch(_) => v,
            Stage::Broadcast => {
                let n = self.cores.iter().sum::<u64>() as usize;
                if v.len() * n > self.cap {
                    self.overflow = true;
                    Vec::new()
                } else {
                    let mut out = Vec::with_capacity(v.len() * n);
                    for _ in 0..n {
                        out.extend(v.iter().cloned());
                    }
                    out
                }
            }
            Stage::KeyedMap(_, f) => v
                .into_iter()
                .map(|mut r| {
                    r.v = f.apply(r.v, 0);
                    r
                })
                .collect(),
            Stage::KeyedAgg { form, k, agg } => {
                let groups = Self::group(&v, *k);
                let mut out = Vec::new();
                for (key, vals) in groups {
                    match form {
                        KeyedForm::KeyedRichMap => {
                            for i in 1..=vals.len() as i64 {
                                out.push(keyed_out(key, i));
                            }
                        }
                        KeyedForm::GroupBySum => out.push(keyed_out(
                            key,
                            vals.iter().fold(0i64, |a, b| a.wrapping_add(*b)),
                        )),
                        KeyedForm::GroupByCount => out.push(keyed_out(key, vals.len() as i64)),
                        KeyedForm::GroupByMin => out.push(keyed_out(key, *vals.iter().min().unwrap())),
                        KeyedForm::GroupByMax => out.push(keyed_out(key, *vals.iter().max().unwrap())),
                        KeyedForm::GroupByAvg => {
                            let sum: f64 = vals.iter().map(|x| x.rem_euclid(1 << 20) as f64).sum();
                            let avg = sum / (vals.len() as f64);
                            out.push(keyed_out(key, avg.to_bits() as i64))
                        }
                        _ => out.push(keyed_out(key, agg.fold(vals.iter().copied()))),
                    }
                }
                out
            }
            Stage::GlobalAgg { agg, .. } => {
                if v.is_empty() {
                    Vec::new()
                } else {
                    vec![Rec::new(agg.fold(v.iter().map(|r| r.v)))]
                }
            }
            Stage::CountWindow { k, n, s, exact, aggr } => {
                let (n, s) = ((*n).max(1) as usize, (*s).max(1) as usize);
                let s = s.min(n);
                let groups = Self::group(&v, *k);
                let mut out = Vec::new();
                for (key, vals) in groups {
                    let mut wins: Vec<&[i64]> = Vec::new();
                    let mut j = 0;
                    while j * s + n <= vals.len() {
                        wins.push(&vals[j * s..j * s + n]);
                        j += 1;
                    }
                    // non exact: the oldest incomplete non-empty group at the end
                    if !*exact && j * s < vals.len() {
                        wins.push(&vals[j * s..]);
                    }
                    for w in wins {
                        let val = match aggr {
                            WinAggr::Collect | WinAggr::Fold => seq_hash(w),
                            WinAggr::Sum => w.iter().fold(0i64, |a, b| a.wrapping_add(*b)),
                            WinAggr::Count => w.len() as i64,
                            WinAggr::Min => *w.iter().min().unwrap(),
                            WinAggr::Max => *w.iter().max().unwrap(),
                            WinAggr::First => w[0],
                            WinAggr::Last => *w.last().unwrap(),
                        };
                        out.push(keyed_out(key, val));
                    }
                }
                out
            }
            Stage::Fork { branch, sink } => {
                let side = self.stages(v.clone(), branch);
                self.sink(side, *sink);
                v
            }
            Stage::Diamond { left, right, comb } => {
                let l = self.stages(v.clone(), left);
                let r = self.stages(v, right);
                self.combine(l, r, comb)
            }
            Stage::With { other, comb } => {
                let start = self.next_probe;
                let o = if let Some((o, end)) = self.side_cache.get(&start).cloned() {
                    self.next_probe = end;
                    o
                } else {
                    let saved = std::mem::take(&mut self.states);
                    let o = self.pipe(other);
                    self.states = saved;
                    self.side_cache.insert(start, (o.clone(), self.next_probe));
                    o
                };
                self.combine(v, o, comb)
            }
            Stage::Route { preds, branches } => {
                let mut parts: Vec<Vec<Rec>> = vec![Vec::new(); preds.len()];
                for r in v {
                    if let Some(i) = preds.iter().position(|p| route_pred(*p)(&r)) {
                        parts[i].push(r);
                    }
                }
                let mut out = Vec::new();
                for (p, b) in parts.into_iter().zip(branches.iter()) {
                    out.extend(self.stages(p, b));
                }
                out
            }
            Stage::Replay(l) => {
                let (state, _) = self.run_loop(v, l, false);
                vec![Rec::new(mix_pair(Some(state.round as i64), Some(state.acc)))]
            }
            Stage::Iterate(l) => {
                let (state, out) = self.run_loop(v, l, true);
                self.sink(
                    vec![Rec::new(mix_pair(Some(state.round as i64), Some(state.acc)))],
                    SinkKind::CollectVec,
                );
                out
            }
        };
        self.tap(&out);
        out
    }
}

/// Independent model of the declared replication of the block each probe sits in (same traversal
/// order as the builder), for the placement oracle of C19.
pub fn static_replication(job: &JobSpec) -> BTreeMap<u32, Repl> {
    struct W {
        id: u32,
        out: BTreeMap<u32, Repl>,
    }
    impl W {
        fn tap(&mut self, r: Repl) {
            self.out.insert(self.id, r);
            self.id += 1;
        }
        fn pipe(&mut self, p: &Pipe) -> Repl {
            let r = match p.source {
                SourceSpec::Iter(_) => Repl::One,
                _ => Repl::Unlimited,
            };
            self.tap(r);
            self.stages(&p.stages, r)
        }
        fn stages(&mut self, st: &[Stage], mut r: Repl) -> Repl {
            for s in st {
                r = self.stage(s, r);
            }
            r
        }
        fn comb(c: &Combine, l: Repl, _r: Repl) -> Repl {
            match c {
                // forward inputs: the new block inherits the left side's requirements
                Combine::Merge => l,
                Combine::Zip | Combine::ZipCount => Repl::One,
                Combine::Join(_, JoinAlgo::BcHash | JoinAlgo::BcSortMerge, _) => l,
                Combine::Join(..) => Repl::Unlimited,
            }
        }
        fn stage(&mut self, s: &Stage, r: Repl) -> Repl {
            let o = match s {
                Stage::Map(_) | Stage::Filter(_) | Stage::FlatMap(_) | Stage::FilterMap(..) | Stage::RichIndex | Stage::Batch(_) => r,
                Stage::Shuffle | Stage::Broadcast | Stage::KeyedMap(..) | Stage::KeyedAgg { .. } | Stage::CountWindow { .. } => Repl::Unlimited,
                Stage::Replicate(x) | Stage::Repartition(x, _) => *x,
                Stage::GlobalAgg { .. } => Repl::One,
                Stage::Fork { branch, .. } => {
                    self.stages(branch, r);
                    r
                }
                Stage::Diamond { left, right, comb } => {
                    let l = self.stages(left, r);
                    let rr = self.stages(right, r);
                    Self::comb(comb, l, rr)
                }
                Stage::With { other, comb } => {
                    let o = self.pipe(other);
                    Self::comb(comb, r, o)
                }
                Stage::Route { branches, .. } => {
                    for b in branches {
                        self.stages(b, r);
                    }
                    Repl::Unlimited
                }
                Stage::Replay(l) | Stage::Iterate(l) => {
                    self.tap(Repl::Unlimited);
                    self.stages(&l.body, Repl::Unlimited);
                    Repl::Unlimited
                }
            };
            self.tap(o);
            o
        }
    }
    let mut w = W { id: 0, out: BTreeMap::new() };
    w.pipe(&job.pipe);
    w.out
}
