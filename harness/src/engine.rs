//! Run a `JobSpec` under a `ConfigSpec` on the real engine and gather everything observed.
use std::sync::atomic::Ordering;
use std::sync::Arc;

use crate::build::{BuildOpts, Builder, SinkOut};
use crate::obs::{JobCtx, ProbeEv, RecvEv, SendEv};
use crate::reference::{RefOut, RefSink};
use crate::run::{run_job, AddrSeed, BuildFn, Deadlock, HostOutcome, JobOutcome, Watchdog};
use crate::spec::*;

#[derive(Clone, Debug, Default)]
pub struct RunOpts {
    pub probes: bool,
    pub stamp: bool,
    pub match_links: bool,
    pub record_links: bool,
    pub crash: Option<(u32, u64)>,
    pub watchdog: Option<Watchdog>,
}

pub struct JobRun {
    pub hosts: Vec<HostOutcome<Vec<SinkOut>>>,
    pub probes: Vec<ProbeEv>,
    pub sends: Vec<SendEv>,
    pub recvs: Vec<RecvEv>,
    pub ctx: Arc<JobCtx>,
    pub probe_info: Vec<(u32, String, usize)>,
    pub edges: Vec<(u32, u32, &'static str)>,
    pub routes: Vec<(u32, crate::build::RouteKind)>,
    /// cache of the routing monitor's statistics
    pub routing_stats: std::cell::RefCell<Option<crate::monitors::RoutingStats>>,
    pub layout_cores: Vec<u64>,
}

pub enum RunResult {
    Done(JobRun),
    Deadlock(Deadlock, Arc<JobCtx>),
    Inconclusive(String),
}

pub fn run_spec(job: &JobSpec, cfg: &ConfigSpec, opts: &RunOpts, addr: AddrSeed) -> RunResult {
    let ctx = JobCtx::new(cfg.delays.clone());
    ctx.match_links.store(opts.match_links, Ordering::Relaxed);
    ctx.record_links.store(opts.record_links, Ordering::Relaxed);
    let job2 = job.clone();
    let bopts = BuildOpts {
        probes: opts.probes,
        stamp: opts.stamp,
        batch: cfg.batch,
        crash: opts.crash,
    };
    let info = Arc::new(std::sync::Mutex::new((Vec::new(), Vec::new(), Vec::new())));
    let info2 = info.clone();
    let build: BuildFn<Vec<SinkOut>> = Arc::new(move |env, host| {
        let mut b = Builder::new(env, bopts.clone());
        b.job(&job2);
        if host == 0 {
            *info2.lock().unwrap() = (b.probe_info.clone(), b.edges.clone(), b.routes.clone());
        }
        let sinks = std::mem::take(&mut b.sinks);
        Box::new(move || sinks.into_iter().map(|c| c()).collect())
    });
    match run_job(&cfg.layout, addr, ctx.clone(), build, opts.watchdog.unwrap_or_default()) {
        JobOutcome::Finished(hosts) => {
            let probes = ctx.take_probes();
            let sends = std::mem::take(&mut *ctx.sends.lock().unwrap());
            let recvs = std::mem::take(&mut *ctx.recvs.lock().unwrap());
            let (probe_info, edges, routes) = info.lock().unwrap().clone();
            RunResult::Done(JobRun {
                hosts,
                probes,
                sends,
                recvs,
                ctx,
                probe_info,
                edges,
                routes,
                routing_stats: Default::default(),
                layout_cores: cfg.layout.cores(),
            })
        }
        JobOutcome::Deadlock(d) => RunResult::Deadlock(d, ctx),
        JobOutcome::Inconclusive(s) => RunResult::Inconclusive(s),
    }
}

fn sorted(mut v: Vec<(i64, usize)>) -> Vec<(i64, usize)> {
    v.sort_unstable();
    v
}

fn diff_multiset(exp: &[(i64, usize)], got: &[(i64, usize)]) -> String {
    use std::collections::BTreeMap;
    let mut m: BTreeMap<(i64, usize), i64> = BTreeMap::new();
    for e in exp {
        *m.entry(*e).or_default() += 1;
    }
    for g in got {
        *m.entry(*g).or_default() -= 1;
    }
    let missing: Vec<_> = m.iter().filter(|(_, &c)| c > 0).take(6).collect();
    let extra: Vec<_> = m.iter().filter(|(_, &c)| c < 0).take(6).collect();
    format!(
        "expected {} elements, got {}; missing (value,count) {:?}; unexpected {:?}",
        exp.len(),
        got.len(),
        missing,
        extra
    )
}

/// The C01 / C04 sink oracle: every sink yields exactly the reference multiset, on exactly the
/// hosts its kind prescribes.
pub fn check_sinks(run: &JobRun, reference: &RefOut) -> Result<(), String> {
    for (h, o) in run.hosts.iter().enumerate() {
        if let HostOutcome::Panicked(m) = o {
            return Err(format!("host {h} panicked: {m}; panics of the job: {:?}", run.ctx.panics.lock().unwrap()));
        }
    }
    let hosts: Vec<&Vec<SinkOut>> = run
        .hosts
        .iter()
        .map(|h| match h {
            HostOutcome::Done(v) => v,
            _ => unreachable!(),
        })
        .collect();
    for (i, (kind, exp)) in reference.sinks.iter().enumerate() {
        let outs: Vec<&SinkOut> = hosts.iter().map(|h| &h[i]).collect();
        match kind {
            SinkKind::CollectVec | SinkKind::Collect | SinkKind::CollectCount => {
                let some: Vec<(usize, &SinkOut)> = outs
                    .iter()
                    .enumerate()
                    .filter(|(_, o)| !matches!(o, SinkOut::Nothing))
                    .map(|(h, o)| (h, *o))
                    .collect();
                if some.len() != 1 {
                    return Err(format!(
                        "sink {i} ({kind:?}): {} hosts obtained a result (expected exactly one)",
                        some.len()
                    ));
                }
                match (some[0].1, exp) {
                    (SinkOut::Items(g), RefSink::Items(e)) => {
                        let g = sorted(g.clone());
                        if &g != e {
                            return Err(format!("sink {i} ({kind:?}): {}", diff_multiset(e, &g)));
                        }
                    }
                    (SinkOut::Count(g), RefSink::Count(e)) => {
                        if g != e {
                            return Err(format!("sink {i} (collect_count): expected {e}, got {g}"));
                        }
                    }
                    (g, e) => return Err(format!("sink {i}: kind mismatch {g:?} vs {e:?}")),
                }
            }
            SinkKind::CollectVecAll => {
                for (h, o) in outs.iter().enumerate() {
                    match (o, exp) {
                        (SinkOut::Items(g), RefSink::Items(e)) => {
                            let g = sorted(g.clone());
                            if &g != e {
                                return Err(format!(
                                    "sink {i} (collect_vec_all) on host {h}: {}",
                                    diff_multiset(e, &g)
                                ));
                            }
                        }
                        (g, _) => {
                            return Err(format!(
                                "sink {i} (collect_vec_all) on host {h}: no complete result ({g:?})"
                            ))
                        }
                    }
                }
            }
            SinkKind::ForEach => {
                let mut all = Vec::new();
                for o in &outs {
                    if let SinkOut::Items(g) = o {
                        all.extend(g.iter().cloned());
                    }
                }
                let g = sorted(all);
                if let RefSink::Items(e) = exp {
                    if &g != e {
                        return Err(format!("sink {i} (for_each): {}", diff_multiset(e, &g)));
                    }
                }
            }
            SinkKind::CollectChannel => {
                let mut all = Vec::new();
                let mut with_data = 0;
                for o in &outs {
                    if let SinkOut::Channel(g, disconnected) = o {
                        if !disconnected {
                            return Err(format!(
                                "sink {i} (collect_channel): channel still connected after the job ended"
                            ));
                        }
                        if !g.is_empty() {
                            with_data += 1;
                        }
                        all.extend(g.iter().cloned());
                    }
                }
                if with_data > 1 {
                    return Err(format!("sink {i} (collect_channel): {with_data} hosts received data"));
                }
                let g = sorted(all);
                if let RefSink::Items(e) = exp {
                    if &g != e {
                        return Err(format!("sink {i} (collect_channel): {}", diff_multiset(e, &g)));
                    }
                }
            }
        }
    }
    Ok(())
}
