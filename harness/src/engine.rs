//! Run a `JobSpec` under a `ConfigSpec` on the real engine and gather everything observed.
use std::sync::atomic::Ordering;
use std::sync::Arc;

use crate::build::{BuildOpts, Builder, SinkOut};
use crate::obs::{JobCtx, ProbeEv, RecvEv, SendEv};
use crate::reference::{RefOut, RefSink};
use crate::run::{run_job, AddrSeed, BuildFn, Deadlock, HostOutcome, JobOutcome, Watchdog};
use crate::spec::*;

#[derive(Clone, Debug, Default)]
pub struct RunOpts {
    pub probes: bool,
    pub stamp: bool,
    pub match_links: bool,
    pub record_links: bool,
    pub crash: Option<(u32, u64)>,
    pub watchdog: Option<Watchdog>,
}

pub struct JobRun {
    pub hosts: Vec<HostOutcome<Vec<SinkOut>>>,
    pub probes: Vec<ProbeEv>,
    pub sends: Vec<SendEv>,
    pub recvs: Vec<RecvEv>,
    pub ctx: Arc<JobCtx>,
    pub probe_info: Vec<(u32, String, usize)>,
    pub edges: Vec<(u32, u32, &'static str)>,
    pub routes: Vec<(u32, crate::build::RouteKind)>,
    /// cache of the routing monitor's statistics
    pub routing_stats: std::cell::RefCell<Option<crate::monitors::RoutingStats>>,
    pub layout_cores: Vec<u64>,
}

pub enum RunResult {
    Done(JobRun),
    Deadlock(Deadlock, Arc<JobCtx>),
    Inconclusive(String),
}

pub fn run_spec(job: &JobSpec, cfg: &ConfigSpec, opts: &RunOpts, addr: AddrSeed) -> RunResult {
    let ctx = JobCtx::new(cfg.delays.clone());
    ctx.match_links.store(opts.match_links, Ordering::Relaxed);
    ctx.record_links.store(opts.record_links, Ordering::Relaxed);
    let job2 = job.clone();
    let bopts = BuildOpts {
        probes: opts.probes,
        stamp: opts.stamp,
        batch: cfg.batch,
        crash: opts.crash,
    };
    let info = Arc::new(std::sync::Mutex::new((Vec::new(), Vec::new(), Vec::new())));
    let info2 = info.clone();
    let build: BuildFn<Vec<SinkOut>> = Arc::new(move |env, host| {
        let mut b = Builder::new(env, bopts.clone());
        b.job(&job2);
        if host == 0 {
            *info2.lock().unwrap() = (b.probe_info.clone(), b.edges.clone(), b.routes.clone());
        }
        let sinks = std::mem::take(&mut b.sinks);
        Box::new(move || sinks.into_iter().map(|c| c()).collect())
    });
    match run_job(&cfg.layout, addr, ctx.clone(), build, opts.watchdog.unwrap_or_default()) {
        JobOutcome::Finished(hosts) => {
            let probes = ctx.take_probes();
            let sends = std::mem::take(&mut *ctx.sends.lock().unwrap());
            let recvs = std::mem::take(&mut *ctx.recvs.lock().unwrap());
            let (probe_info, edges, routes) = info.lock().unwrap().clone();
            RunResult::Done(JobRun {
                hosts,
                probes,
                sends,
                recvs,
                ctx,
                probe_info,
                edges,
                routes,
                routing_stats: Default::default(),
                layout_cores: cfg.layout.cores(),
            })
        }
        JobOutcome::Deadlock(d) => RunResult::Deadlock(d, ctx),
        JobOutcome::Inconclusive(s) => RunResult::Inconclusive(s),
    }
}

fn sorted(mut v: Vec<(i64, usize)>) -> Vec<(i64, usize)> {
    v.sort_unstable();
    v
}

fn diff_multiset(exp: &[(i64, usize)], got: &[(i64, usize)]) -> String {
    use std::collections::BTreeMap;
    let mut m: BTreeMap<(i64, usize), i64> = BTreeMap::new();
    for e in exp {
        *m.entry(*e).or_default() += 1;
    }
    for g in got {
        *m.entry(*g).or_default() -= 1;
    }
    let missing: Vec<_> = m.iter().filter(|(_, &c)| c > 0).take(6).collect();
    let extra: Vec<_> = m.iter().filter(|(_, &c)| c < 0).take(6).collect();
    format!(
        "expected {} elements, got {}; missing (value,count) {:?}; unexpected {:?}",
        exp.len(),
        got.len(),
        missing,
        extra
    )
}

/// The C01 / C04 sink oracle: every sink yields exactly the reference multiset, on exactly the
/// hosts its kind prescribes.
pub fn check_sinks(run: &JobRun, reference: &RefOut) -> Result<(), String> {
    let panics = run.ctx.panics.lock().unwrap().clone();
    check_sinks_of(&run.hosts, &panics, reference)
}

/// One OS process per host: every host runs `vrun xhost <file> <index>` (the same build), the
/// hosts talk over loopback TCP exactly as in a cluster, and each prints what its sinks obtained.
/// Nothing is shared between the hosts but the program and the configuration, so anything that is
/// only consistent inside one process (a randomly keyed hasher, a process-wide static) shows.
pub fn run_spec_processes(job: &JobSpec, cfg: &ConfigSpec, addr: AddrSeed, work_dir: &std::path::Path, timeout: std::time::Duration) -> Result<Vec<HostOutcome<Vec<SinkOut>>>, String> {
    use std::io::Read;
    use std::process::{Command, Stdio};
    let n = cfg.layout.n_hosts();
    let dir = work_dir.join("xproc");
    std::fs::create_dir_all(&dir).map_err(|e| e.to_string())?;
    let file = dir.join(format!("{}-{}-{}.json", std::process::id(), addr.shard, addr.job));
    let spec = serde_json::json!({"job": job, "config": cfg, "shard": addr.shard, "job_no": addr.job});
    std::fs::write(&file, serde_json::to_vec(&spec).unwrap()).map_err(|e| e.to_string())?;
    let exe = std::env::current_exe().map_err(|e| e.to_string())?;
    let mut children = Vec::new();
    for i in 0..n {
        let c = Command::new(&exe)
            .args(["xhost", "C01", file.to_str().unwrap(), &i.to_string()])
            .env("VERIF_ADDR_SLOT", crate::run::process_slot().to_string())
            .stdin(Stdio::null())
            // a file, not a pipe: the result of a host can exceed the pipe buffer, and nobody
            // reads before all hosts have ended
            .stdout(Stdio::from(std::fs::File::create(dir.join(format!("{}.out{i}", file.file_name().unwrap().to_str().unwrap()))).map_err(|e| e.to_string())?))
            .stderr(Stdio::null())
            .spawn()
            .map_err(|e| format!("cannot spawn a host process: {e}"))?;
        children.push(c);
    }
    let deadline = std::time::Instant::now() + timeout.mul_f64(crate::run::load_factor());
    let mut done: Vec<Option<std::process::ExitStatus>> = vec![None; n];
    loop {
        let mut all = true;
        for (i, c) in children.iter_mut().enumerate() {
            if done[i].is_none() {
                match c.try_wait() {
                    Ok(Some(st)) => done[i] = Some(st),
                    _ => all = false,
                }
            }
        }
        if all {
            break;
        }
        if std::time::Instant::now() > deadline {
            for (i, c) in children.iter_mut().enumerate() {
                let _ = c.kill();
                let _ = c.wait();
                let _ = std::fs::remove_file(dir.join(format!("{}.out{i}", file.file_name().unwrap().to_str().unwrap())));
            }
            let running: Vec<usize> = done.iter().enumerate().filter(|(_, d)| d.is_none()).map(|(i, _)| i).collect();
            return Err(format!("host processes {running:?} of {n} did not end within {:?} (job kept in {})", timeout.mul_f64(crate::run::load_factor()), file.display()));
        }
        std::thread::sleep(std::time::Duration::from_millis(5));
    }
    let _ = std::fs::remove_file(&file);
    let mut out = Vec::new();
    for (i, _c) in children.into_iter().enumerate() {
        let mut txt = String::new();
        let outp = dir.join(format!("{}.out{i}", file.file_name().unwrap().to_str().unwrap()));
        if let Ok(mut o) = std::fs::File::open(&outp) {
            let _ = o.read_to_string(&mut txt);
        }
        let _ = std::fs::remove_file(&outp);
        let line = txt.lines().rev().find(|l| l.starts_with("XHOST ")).map(|l| l[6..].to_string());
        match line.and_then(|l| serde_json::from_str::<serde_json::Value>(&l).ok()) {
            Some(v) if v.get("sinks").is_some() => match serde_json::from_value::<Vec<SinkOut>>(v["sinks"].clone()) {
                Ok(s) => out.push(HostOutcome::Done(s)),
                Err(e) => return Err(format!("host process {i}: unreadable result ({e})")),
            },
            Some(v) => out.push(HostOutcome::Panicked(v["panicked"].as_str().unwrap_or("?").to_string())),
            None => out.push(HostOutcome::Panicked(format!("host process {i} ended with {:?} and no result", done[i]))),
        }
    }
    Ok(out)
}

/// The body of `vrun xhost`: run host `index` of the job in this process and print its sinks.
pub fn xhost_main(file: &str, index: usize) -> i32 {
    let Ok(txt) = std::fs::read_to_string(file) else { return 2 };
    let Ok(v) = serde_json::from_str::<serde_json::Value>(&txt) else { return 2 };
    let (Ok(job), Ok(cfg)) = (serde_json::from_value::<JobSpec>(v["job"].clone()), serde_json::from_value::<ConfigSpec>(v["config"].clone())) else { return 2 };
    let addr = AddrSeed { shard: v["shard"].as_u64().unwrap_or(0) as u32, job: v["job_no"].as_u64().unwrap_or(0) };
    let mut configs = crate::run::host_configs(&cfg.layout, addr);
    if index >= configs.len() {
        return 2;
    }
    let config = configs.remove(index);
    let bopts = BuildOpts { probes: false, stamp: false, batch: cfg.batch, crash: None };
    let res = std::panic::catch_unwind(std::panic::AssertUnwindSafe(|| {
        let env = renoir::StreamContext::new(config);
        let mut b = Builder::new(&env, bopts);
        b.job(&job);
        let sinks = std::mem::take(&mut b.sinks);
        drop(b);
        env.execute_blocking();
        sinks.into_iter().map(|c| c()).collect::<Vec<SinkOut>>()
    }));
    match res {
        Ok(s) => println!("XHOST {}", serde_json::json!({"sinks": s})),
        Err(e) => println!("XHOST {}", serde_json::json!({"panicked": crate::run::panic_msg(&e)})),
    }
    0
}

pub fn check_sinks_of(hosts_out: &[HostOutcome<Vec<SinkOut>>], panics: &[String], reference: &RefOut) -> Result<(), String> {
    for (h, o) in hosts_out.iter().enumerate() {
        if let HostOutcome::Panicked(m) = o {
            return Err(format!("host {h} panicked: {m}; panics of the job: {:?}", panics));
        }
    }
    let hosts: Vec<&Vec<SinkOut>> = hosts_out
        .iter()
        .map(|h| match h {
            HostOutcome::Done(v) => v,
            _ => unreachable!(),
        })
        .collect();
    for (i, (kind, exp)) in reference.sinks.iter().enumerate() {
        let outs: Vec<&SinkOut> = hosts.iter().map(|h| &h[i]).collect();
        match kind {
            SinkKind::CollectVec | SinkKind::Collect | SinkKind::CollectCount => {
                let some: Vec<(usize, &SinkOut)> = outs
                    .iter()
                    .enumerate()
                    .filter(|(_, o)| !matches!(o, SinkOut::Nothing))
                    .map(|(h, o)| (h, *o))
                    .collect();
                if some.len() != 1 {
                    return Err(format!(
                        "sink {i} ({kind:?}): {} hosts obtained a result (expected exactly one)",
                        some.len()
                    ));
                }
                match (some[0].1, exp) {
                    (SinkOut::Items(g), RefSink::Items(e)) => {
                        let g = sorted(g.clone());
                        if &g != e {
                            return Err(format!("sink {i} ({kind:?}): {}", diff_multiset(e, &g)));
                        }
                    }
                    (SinkOut::Count(g), RefSink::Count(e)) => {
                        if g != e {
                            return Err(format!("sink {i} (collect_count): expected {e}, got {g}"));
                        }
                    }
                    (g, e) => return Err(format!("sink {i}: kind mismatch {g:?} vs {e:?}")),
                }
            }
            SinkKind::CollectVecAll => {
                for (h, o) in outs.iter().enumerate() {
                    match (o, exp) {
                        (SinkOut::Items(g), RefSink::Items(e)) => {
                            let g = sorted(g.clone());
                            if &g != e {
                                return Err(format!(
                                    "sink {i} (collect_vec_all) on host {h}: {}",
                                    diff_multiset(e, &g)
                                ));
                            }
                        }
                        (g, _) => {
                            return Err(format!(
                                "sink {i} (collect_vec_all) on host {h}: no complete result ({g:?})"
                            ))
                        }
                    }
                }
            }
            SinkKind::ForEach => {
                let mut all = Vec::new();
                for o in &outs {
                    if let SinkOut::Items(g) = o {
                        all.extend(g.iter().cloned());
                    }
                }
                let g = sorted(all);
                if let RefSink::Items(e) = exp {
                    if &g != e {
                        return Err(format!("sink {i} (for_each): {}", diff_multiset(e, &g)));
                    }
                }
            }
            SinkKind::CollectChannel => {
                let mut all = Vec::new();
                let mut with_data = 0;
                for o in &outs {
                    if let SinkOut::Channel(g, disconnected) = o {
                        if !disconnected {
                            return Err(format!(
                                "sink {i} (collect_channel): channel still connected after the job ended"
                            ));
                        }
                        if !g.is_empty() {
                            with_data += 1;
                        }
                        all.extend(g.iter().cloned());
                    }
                }
                if with_data > 1 {
                    return Err(format!("sink {i} (collect_channel): {with_data} hosts received data"));
                }
                let g = sorted(all);
                if let RefSink::Items(e) = exp {
                    if &g != e {
                        return Err(format!("sink {i} (collect_channel): {}", diff_multiset(e, &g)));
                    }
                }
            }
        }
    }
    Ok(())
}
