//! Transparent harness operators: probes (log what flows at an operator boundary) and stampers
//! (rewrite the metadata word so that an element can be traced across a link).
use std::fmt::{Display, Formatter};

use renoir::operator::{Operator, StreamElement};
use renoir::structure::BlockStructure;
use renoir::verif::{ElemKind, Loc};
use renoir::{ExecutionMetadata, IterationStateHandle, Stream};

use crate::obs::{ctx, ProbeEv};
use crate::rec::{LoopState, Rec};

pub trait HasRec: Clone + Send + 'static {
    fn rec(&self) -> &Rec;
    fn rec_mut(&mut self) -> &mut Rec;
}
impl HasRec for Rec {
    fn rec(&self) -> &Rec {
        self
    }
    fn rec_mut(&mut self) -> &mut Rec {
        self
    }
}
impl<K: Clone + Send + 'static> HasRec for (K, Rec) {
    fn rec(&self) -> &Rec {
        &self.1
    }
    fn rec_mut(&mut self) -> &mut Rec {
        &mut self.1
    }
}

#[derive(Clone)]
pub struct Probe<Op: Operator>
where
    Op::Out: HasRec,
{
    prev: Op,
    id: u32,
    log: bool,
    stamp: bool,
    loc: Loc,
    global_id: u64,
    seq: u32,
    iter: u32,
    state: Option<IterationStateHandle<LoopState>>,
}

impl<Op: Operator> Display for Probe<Op>
where
    Op::Out: HasRec,
{
    fn fmt(&self, f: &mut Formatter<'_>) -> std::fmt::Result {
        write!(f, "{} -> Probe{}", self.prev, self.id)
    }
}

/// Layout of the stamped metadata word.
pub fn stamp_word(stamper: u32, global_id: u64, iter: u32, seq: u32) -> u64 {
    ((stamper as u64 & 0xfff) << 52)
        | ((global_id & 0xff) << 44)
        | ((iter as u64 & 0xfff) << 32)
        | seq as u64
}
pub fn stamp_parts(m: u64) -> (u32, u64, u32, u32) {
    (
        (m >> 52) as u32 & 0xfff,
        (m >> 44) & 0xff,
        (m >> 32) as u32 & 0xfff,
        m as u32,
    )
}

impl<Op: Operator> Operator for Probe<Op>
where
    Op::Out: HasRec + serde::Serialize,
{
    type Out = Op::Out;

    fn setup(&mut self, metadata: &mut ExecutionMetadata) {
        self.prev.setup(metadata);
        self.loc = Loc {
            block_id: metadata.coord.block_id,
            host_id: metadata.coord.host_id,
            replica_id: metadata.coord.replica_id,
        };
        self.global_id = metadata.global_id;
    }

    fn next(&mut self) -> StreamElement<Op::Out> {
        let mut el = self.prev.next();
        let (kind, ts) = match &el {
            StreamElement::Item(_) => (ElemKind::Item, None),
            StreamElement::Timestamped(_, ts) => (ElemKind::Timestamped, Some(*ts)),
            StreamElement::Watermark(ts) => (ElemKind::Watermark, Some(*ts)),
            StreamElement::FlushBatch => (ElemKind::FlushBatch, None),
            StreamElement::Terminate => (ElemKind::Terminate, None),
            StreamElement::FlushAndRestart => (ElemKind::FlushAndRestart, None),
        };
        let m_in = match &el {
            StreamElement::Item(x) | StreamElement::Timestamped(x, _) => x.rec().m,
            _ => 0,
        };
        if self.stamp {
            if let StreamElement::Item(x) | StreamElement::Timestamped(x, _) = &mut el {
                x.rec_mut().m = stamp_word(self.id, self.global_id, self.iter, self.seq);
                self.seq = self.seq.wrapping_add(1);
            }
        }
        if self.log {
            if let Some(c) = ctx() {
                let (v, m, pad) = match &el {
                    StreamElement::Item(x) | StreamElement::Timestamped(x, _) => {
                        (x.rec().v, x.rec().m, x.rec().pad.len())
                    }
                    _ => (0, 0, 0),
                };
                let digest = if self.stamp && matches!(kind, ElemKind::Item | ElemKind::Timestamped)
                {
                    renoir::verif::digest(&el)
                } else {
                    0
                };
                let state = self.state.as_ref().map(|s| {
                    let st = s.get();
                    (st.round, st.acc)
                });
                c.probe(ProbeEv {
                    seq: 0,
                    probe: self.id,
                    loc: self.loc,
                    kind,
                    ts,
                    v,
                    m,
                    m_in,
                    iter: self.iter,
                    pad,
                    digest,
                    state,
                });
            }
        }
        if kind == ElemKind::FlushAndRestart {
            self.iter = self.iter.wrapping_add(1);
        }
        el
    }

    fn structure(&self) -> BlockStructure {
        self.prev.structure()
    }
}

pub fn probe<Op>(
    s: Stream<Op>,
    id: u32,
    log: bool,
    stamp: bool,
    state: Option<IterationStateHandle<LoopState>>,
) -> Stream<Probe<Op>>
where
    Op: Operator + 'static,
    Op::Out: HasRec + serde::Serialize,
{
    s.add_operator(|prev| Probe {
        prev,
        id,
        log,
        stamp,
        loc: Loc::default(),
        global_id: 0,
        seq: 0,
        iter: 0,
        state,
    })
}
