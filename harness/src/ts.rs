//! Timestamped jobs: scripted multi-replica sources that respect the watermark contract, a small
//! stage language over timestamp-safe operators, and the oracles of C06 / C16 (reorder) / C07
//! (result timestamps) / C08 (interval join) / C13 (event-time windows end to end).
use std::collections::{BTreeMap, HashMap};
use std::fmt::{Display, Formatter};
use std::sync::Arc;

use renoir::operator::source::Source;
use renoir::operator::window::{CountWindow, EventTimeWindow};
use renoir::operator::{Operator, StreamElement};
use renoir::structure::BlockStructure;
use renoir::verif::{ElemKind, Loc};
use renoir::{ExecutionMetadata, Replication, Stream, StreamContext};
use serde::{Deserialize, Serialize};

use crate::dynop::{erase, DStream};
use crate::gen::Chooser;
use crate::obs::{loc_str, ProbeEv};
use crate::probe::probe;
use crate::rec::{mix_pair, Rec};
use crate::spec::{BatchSpec, Repl};

#[derive(Clone, Debug, PartialEq, Eq, Hash, Serialize, Deserialize)]
pub enum Sx {
    /// value (unique id), timestamp
    Ts(i64, i64),
    Wm(i64),
    /// the source asks the block to flush its batches
    FlushBatch,
}

/// Scripts of one source: `scripts[replica][iteration]`. Replicas beyond the scripts have empty
/// iterations. All replicas run the same number of iterations.
#[derive(Clone, Debug, PartialEq, Eq, Hash, Serialize, Deserialize)]
pub struct TsSource {
    pub scripts: Vec<Vec<Vec<Sx>>>,
    pub iterations: usize,
    pub repl: Repl,
}

impl TsSource {
    /// Elements emitted in a deployment: only the scripts of replicas that exist there run.
    pub fn elements(&self, iteration: usize, cores: &[u64]) -> Vec<(i64, i64)> {
        let active = (self.repl.replicas(cores) as usize).min(self.scripts.len());
        let mut v = Vec::new();
        for s in &self.scripts[..active] {
            if let Some(it) = s.get(iteration) {
                for x in it {
                    if let Sx::Ts(a, t) = x {
                        v.push((*a, *t));
                    }
                }
            }
        }
        v
    }
}

#[derive(Clone)]
pub struct Scripted {
    src: Arc<TsSource>,
    me: usize,
    iter: usize,
    pos: usize,
    terminated: bool,
}

impl Display for Scripted {
    fn fmt(&self, f: &mut Formatter<'_>) -> std::fmt::Result {
        write!(f, "Scripted")
    }
}

impl Operator for Scripted {
    type Out = Rec;
    fn setup(&mut self, metadata: &mut ExecutionMetadata) {
        self.me = metadata.global_id as usize;
    }
    fn next(&mut self) -> StreamElement<Rec> {
        if self.terminated || self.iter >= self.src.iterations {
            self.terminated = true;
            return StreamElement::Terminate;
        }
        let it = self.src.scripts.get(self.me).and_then(|s| s.get(self.iter));
        match it.and_then(|it| it.get(self.pos)) {
            Some(x) => {
                self.pos += 1;
                match x {
                    Sx::Ts(v, ts) => StreamElement::Timestamped(Rec::new(*v), *ts),
                    Sx::Wm(w) => StreamElement::Watermark(*w),
                    Sx::FlushBatch => StreamElement::FlushBatch,
                }
            }
            None => {
                self.iter += 1;
                self.pos = 0;
                StreamElement::FlushAndRestart
            }
        }
    }
    fn structure(&self) -> BlockStructure {
        BlockStructure::default()
    }
}

impl Source for Scripted {
    fn replication(&self) -> Replication {
        self.src.repl.to_engine()
    }
}

#[derive(Clone, Debug, PartialEq, Eq, Hash, Serialize, Deserialize)]
pub enum TsStage {
    /// v -> v (identity map: keeps ids)
    Map,
    /// keep ids with id % k != r
    Filter(i64, i64),
    /// duplicate every element n times (ids: id * 8 + i)
    FlatMap(u8),
    Shuffle,
    /// group_by(id % k) + keyed map + unkey
    KeyedMap(i64),
    ReplicateOne,
    Batch(BatchSpec),
    Reorder,
    /// fold (sum of ids) on one replica
    GlobalFold,
    /// group_by(id % k).fold(sum)
    KeyedFold(i64),
    CountWindow { k: i64, n: u8, s: u8, exact: bool },
    /// group_by(id % k).window(EventTime(size, slide)).sum
    EventWindow { k: i64, size: i64, slide: i64 },
    /// merge with a second scripted source (after a shuffle on both sides if needed)
    Merge(TsSource),
    /// zip with a second scripted source (pair timestamp = max of the two)
    Zip(TsSource),
    DropTimestamps,
    /// keeps a pseudo-random half of the elements that depends on the round of the enclosing
    /// `replay` (round 0 outside loops): the content of the stream changes from round to round
    RoundFilter,
}

#[derive(Clone, Debug, PartialEq, Eq, Hash, Serialize, Deserialize)]
pub struct TsJob {
    pub source: TsSource,
    pub stages: Vec<TsStage>,
    /// > 0: the stages are the body of `replay(rounds, ..)` - the loop head stores the timestamped
    /// script of its replica (elements and watermarks) and replays it every round
    #[serde(default)]
    pub replay_rounds: u32,
}

pub struct TsBuilder<'a> {
    pub env: &'a StreamContext,
    pub next_probe: u32,
    /// (probe id, stage name)
    pub info: Vec<(u32, String)>,
    pub batch: Option<BatchSpec>,
    /// the state (= round number) of the enclosing `replay`, while its body is being built
    pub state: Option<renoir::IterationStateHandle<i64>>,
}

impl<'a> TsBuilder<'a> {
    pub fn new(env: &'a StreamContext, batch: Option<BatchSpec>) -> Self {
        TsBuilder { env, next_probe: 0, info: Vec::new(), batch, state: None }
    }
    fn tap(&mut self, s: DStream<Rec>, what: &str) -> DStream<Rec> {
        let id = self.next_probe;
        self.next_probe += 1;
        self.info.push((id, what.to_string()));
        erase(probe(s, id, true, false, None))
    }
    pub fn source(&mut self, src: &TsSource) -> DStream<Rec> {
        let s = erase(self.env.stream(Scripted {
            src: Arc::new(src.clone()),
            me: 0,
            iter: 0,
            pos: 0,
            terminated: false,
        }));
        let s = match self.batch {
            Some(b) => s.batch_mode(b.to_mode()),
            None => s,
        };
        self.tap(s, "source")
    }
    pub fn job(&mut self, job: &TsJob) -> DStream<Rec> {
        let s = self.source(&job.source);
        if job.replay_rounds > 0 {
            let stages = job.stages.clone();
            let src_repl = job.source.repl;
            // SAFETY: the body closure is invoked synchronously inside `replay`, while `self` is
            // exclusively borrowed by this call; the pointer only erases the lifetime.
            let this_ptr = self as *mut TsBuilder<'a> as *mut TsBuilder<'static>;
            let state = s.replay(
                job.replay_rounds as usize,
                0i64,
                move |s, state| {
                    let this: &mut TsBuilder<'static> = unsafe { &mut *this_ptr };
                    this.state = Some(state);
                    let mut s = this.tap(erase(s), "loop-in");
                    let mut repl = src_repl;
                    for st in &stages {
                        let (s2, r2) = this.stage(s, st, repl);
                        s = s2;
                        repl = r2;
                    }
                    this.state = None;
                    s
                },
                // the state is the round number
                |_d: &mut i64, _x: Rec| {},
                |_st: &mut i64, _d: i64| {},
                |st: &mut i64| {
                    *st += 1;
                    true
                },
            );
            return erase(state.map(Rec::new));
        }
        let mut s = s;
        let mut repl = job.source.repl;
        for st in &job.stages {
            let (s2, r2) = self.stage(s, st, repl);
            s = s2;
            repl = r2;
        }
        s
    }
    fn stage(&mut self, s: DStream<Rec>, st: &TsStage, repl: Repl) -> (DStream<Rec>, Repl) {
        let (out, r, name): (DStream<Rec>, Repl, &str) = match st {
            TsStage::Map => (erase(s.map(|r: Rec| r)), repl, "map"),
            TsStage::Filter(k, r) => {
                let (k, r) = ((*k).max(1), *r);
                (erase(s.filter(move |x: &Rec| x.v.rem_euclid(k) != r)), repl, "filter")
            }
            TsStage::FlatMap(n) => {
                let n = *n as i64;
                (
                    erase(s.flat_map(move |x: Rec| (0..n).map(|i| Rec::new(x.v * 8 + i)).collect::<Vec<_>>())),
                    repl,
                    "flat_map",
                )
            }
            TsStage::Shuffle => (erase(s.shuffle()), Repl::Unlimited, "shuffle"),
            TsStage::KeyedMap(k) => {
                let k = (*k).max(1);
                (
                    erase(s.group_by(move |x: &Rec| x.v.rem_euclid(k)).map(|(_, x): (&i64, Rec)| x).drop_key()),
                    Repl::Unlimited,
                    "keyed_map",
                )
            }
            TsStage::ReplicateOne => (erase(s.replication(Replication::One)), Repl::One, "replicate_one"),
            TsStage::Batch(b) => (s.batch_mode(b.to_mode()), repl, "batch"),
            TsStage::Reorder => (erase(s.reorder()), repl, "reorder"),
            TsStage::GlobalFold => (
                erase(s.fold(0i64, |a: &mut i64, x: Rec| *a = a.wrapping_add(x.v)).map(Rec::new)),
                Repl::One,
                "global_fold",
            ),
            TsStage::KeyedFold(k) => {
                let k = (*k).max(1);
                (
                    erase(
                        s.group_by(move |x: &Rec| x.v.rem_euclid(k))
                            .fold(0i64, |a: &mut i64, x: Rec| *a = a.wrapping_add(x.v))
                            .unkey()
                            .map(|(k, v)| Rec::new(mix_pair(Some(k), Some(v)))),
                    ),
                    Repl::Unlimited,
                    "keyed_fold",
                )
            }
            TsStage::CountWindow { k, n, s: slide, exact } => {
                let k = (*k).max(1);
                let n = (*n).max(1) as usize;
                let slide = ((*slide).max(1) as usize).min(n);
                (
                    erase(
                        s.group_by(move |x: &Rec| x.v.rem_euclid(k))
                            .map(|(_, x): (&i64, Rec)| x.v)
                            .window::<i64, _>(CountWindow::new(n, slide, *exact))
                            .sum::<i64>()
                            .unkey()
                            .map(|(k, v)| Rec::new(mix_pair(Some(k), Some(v)))),
                    ),
                    Repl::Unlimited,
                    "count_window",
                )
            }
            TsStage::EventWindow { k, size, slide } => {
                let k = (*k).max(1);
                let size = (*size).max(1);
                let slide = (*slide).max(1).min(size);
                (
                    erase(
                        s.group_by(move |x: &Rec| x.v.rem_euclid(k))
                            .map(|(_, x): (&i64, Rec)| x.v)
                            .window::<i64, _>(EventTimeWindow::sliding(size, slide))
                            .sum::<i64>()
                            .unkey()
                            .map(|(k, v)| Rec::new(mix_pair(Some(k), Some(v)))),
                    ),
                    Repl::Unlimited,
                    "event_window",
                )
            }
            TsStage::Merge(other) => {
                let o = self.source(other);
                let (s, o) = if repl != other.repl {
                    (erase(s.shuffle()), erase(o.shuffle()))
                } else {
                    (s, o)
                };
                let r = if repl != other.repl { Repl::Unlimited } else { repl };
                (erase(s.merge(o)), r, "merge")
            }
            TsStage::Zip(other) => {
                let o = self.source(other);
                let (s, o) = if repl != other.repl { (erase(s.shuffle()), erase(o.shuffle())) } else { (s, o) };
                (
                    erase(s.zip(o).map(|(a, b): (Rec, Rec)| Rec::new(mix_pair(Some(a.v), Some(b.v))))),
                    Repl::One,
                    "zip",
                )
            }
            TsStage::DropTimestamps => (erase(s.drop_timestamps()), repl, "drop_timestamps"),
            TsStage::RoundFilter => {
                let st = self.state.clone();
                (
                    erase(s.filter(move |x: &Rec| {
                        let round = st.as_ref().map_or(0, |h| *h.get()) as u64;
                        crate::rec::mix64((x.v as u64) ^ (round << 40)) % 2 == 0
                    })),
                    repl,
                    "round_filter",
                )
            }
        };
        (self.tap(out, name), r)
    }
}

// ---- generator ----------------------------------------------------------------------------------

pub struct ScriptOpts {
    pub max_replicas: usize,
    pub max_iterations: usize,
    pub max_len: usize,
    /// only timestamps >= 0 (the interval join starts from `last_seen = 0`)
    pub non_negative: bool,
    /// weights of the replica styles: normal / no watermarks / no data / ends early
    pub styles: [u32; 4],
    /// minimum script length of a normal replica and weight of watermarks among its operations
    pub min_len: usize,
    pub wm_weight: u32,
}

/// Generate the scripts of one source; ids start at `*next_id` and are unique across sources.
pub fn gen_source(ch: &mut Chooser, o: &ScriptOpts, next_id: &mut i64) -> TsSource {
    let replicas = 1 + ch.below(o.max_replicas);
    // A source runs one iteration: several iterations only exist inside loops, where the loop head
    // synchronises the replicas between rounds (`TsJob::replay_rounds` wraps the stages in `replay`,
    // whose head stores and replays the timestamped script).
    let iterations = 1 + ch.weighted(&[6, 2, 1]).min(o.max_iterations - 1);
    let repl = match ch.weighted(&[5, 2, 2]) {
        0 => Repl::Unlimited,
        1 => Repl::Limited(replicas as u8),
        _ => Repl::One,
    };
    let replicas = if repl == Repl::One { 1 } else { replicas };
    let spread = [2i64, 6, 20][ch.below(3)];
    let mut scripts = Vec::new();
    for _r in 0..replicas {
        let style = ch.weighted(&o.styles); // normal / no watermarks / empty / ends early
        let mut its = Vec::new();
        for _it in 0..iterations {
            let mut v = Vec::new();
            if style == 2 {
                its.push(v);
                continue;
            }
            let len = if style == 3 { ch.below(3) } else { o.min_len + ch.below(o.max_len - o.min_len.min(o.max_len - 1)) };
            let mut wm: Option<i64> = None;
            let mut max_seen = ch.range(0, 10);
            for _ in 0..len {
                match ch.weighted(&[8, if style == 1 || style == 3 { 0 } else { o.wm_weight }, 1]) {
                    0 => {
                        let lo = wm.map_or(max_seen - spread, |w| w + 1);
                        let lo = if o.non_negative { lo.max(0) } else { lo };
                        let ts = ch.range(lo, (max_seen + spread).max(lo));
                        max_seen = max_seen.max(ts);
                        *next_id += 1;
                        v.push(Sx::Ts(*next_id, ts));
                    }
                    1 => {
                        let lo = wm.map_or(max_seen - spread, |w| w + 1);
                        let lo = if o.non_negative { lo.max(0) } else { lo };
                        let w = ch.range(lo, (max_seen + 1).max(lo));
                        wm = Some(w);
                        max_seen = max_seen.max(w);
                        v.push(Sx::Wm(w));
                    }
                    _ => v.push(Sx::FlushBatch),
                }
            }
            its.push(v);
        }
        scripts.push(its);
    }
    TsSource { scripts, iterations, repl }
}

#[derive(Clone, Debug)]
pub struct TsProfile {
    pub windows: bool,
    pub non_exact_count_windows: bool,
    pub reorder_only: bool,
    /// a chain of single-replica blocks fed by ONE source replica that runs several iterations
    /// (sound: no other replica can run ahead into the next iteration)
    pub single_replica_iterations: bool,
    /// the stages are the body of a `replay` loop of 2-4 rounds over a multi-replica source
    pub in_replay: bool,
}

pub fn gen_job(ch: &mut Chooser, p: &TsProfile) -> TsJob {
    let mut next_id = 0;
    let o = if p.single_replica_iterations {
        ScriptOpts { max_replicas: 1, max_iterations: 3, max_len: 30, non_negative: false, styles: [8, 1, 0, 1], min_len: 0, wm_weight: 3 }
    } else {
        ScriptOpts { max_replicas: 5, max_iterations: 1, max_len: 40, non_negative: false, styles: [6, 1, 1, 1], min_len: 0, wm_weight: 3 }
    };
    let mut source = gen_source(ch, &o, &mut next_id);
    if p.single_replica_iterations {
        source.repl = Repl::One;
    }
    if p.in_replay {
        // "Cannot have an iteration block with limited parallelism"
        source.repl = Repl::Unlimited;
    }
    let mut stages = Vec::new();
    let n = 1 + ch.below(6);
    let mut timestamped = true;
    for _ in 0..n {
        if ch.exhausted() {
            break;
        }
        let w = if p.in_replay {
            // stages that keep the stream inside the loop and make sense there
            [3u32, 2, 1, 5, 4, 0, 2, 2, 0, 1, 0, if p.windows { 3 } else { 0 }, 0, 0, 0]
        } else if p.single_replica_iterations {
            // only stages that keep everything on one replica
            [3u32, 2, 1, 0, 0, 3, 2, 6, 1, 0, 0, 0, 0, 1, 0]
        } else if p.reorder_only {
            [2u32, 1, 0, 3, 2, 1, 2, 8, 0, 0, 0, 0, 2, 0, 0]
        } else {
            [3, 2, 1, 4, 3, 2, 2, 3, 2, 2, if p.windows { 2 } else { 0 }, if p.windows { 3 } else { 0 }, 3, 1, if p.windows { 2 } else { 0 }]
        };
        let st = match ch.weighted(&w) {
            0 => TsStage::Map,
            1 => TsStage::Filter(ch.range(2, 5), ch.range(0, 1)),
            2 => TsStage::FlatMap(ch.range(0, 3) as u8),
            3 => TsStage::Shuffle,
            4 => TsStage::KeyedMap([1, 2, 3, 7][ch.below(4)]),
            5 => TsStage::ReplicateOne,
            6 => TsStage::Batch(match ch.below(3) {
                0 => BatchSpec::Single,
                1 => BatchSpec::Fixed(ch.range(1, 5) as u32),
                _ => BatchSpec::Adaptive(4, 1),
            }),
            7 => TsStage::Reorder,
            8 => TsStage::GlobalFold,
            9 => TsStage::KeyedFold([1, 2, 3, 7][ch.below(4)]),
            10 => {
                let n = ch.range(1, 5) as u8;
                TsStage::CountWindow {
                    k: [1, 2, 3][ch.below(3)],
                    n,
                    s: ch.range(1, n as i64) as u8,
                    exact: !p.non_exact_count_windows || ch.flag(1, 2),
                }
            }
            11 => {
                let size = ch.range(1, 10);
                TsStage::EventWindow { k: [1, 2, 3][ch.below(3)], size, slide: ch.range(1, size) }
            }
            12 => {
                let mut other = gen_source(ch, &ScriptOpts { max_replicas: 4, max_iterations: 1, max_len: 25, non_negative: false, styles: [6, 1, 1, 1], min_len: 0, wm_weight: 3 }, &mut next_id);
                // both inputs of a merge run the same number of iterations
                other.iterations = source.iterations;
                for s in other.scripts.iter_mut() {
                    s.resize(source.iterations, Vec::new());
                }
                TsStage::Merge(other)
            }
            13 => TsStage::DropTimestamps,
            _ => {
                let mut other = gen_source(ch, &ScriptOpts { max_replicas: 3, max_iterations: 1, max_len: 25, non_negative: false, styles: [6, 1, 1, 1], min_len: 0, wm_weight: 3 }, &mut next_id);
                other.iterations = source.iterations;
                for s in other.scripts.iter_mut() {
                    s.resize(source.iterations, Vec::new());
                }
                TsStage::Zip(other)
            }
        };
        if !timestamped {
            // after drop_timestamps only timestamp-agnostic stages make sense
            if matches!(st, TsStage::Reorder | TsStage::EventWindow { .. } | TsStage::Merge(_) | TsStage::Zip(_) | TsStage::DropTimestamps) {
                continue;
            }
        }
        if matches!(st, TsStage::DropTimestamps) {
            timestamped = false;
        }
        stages.push(st);
    }
    let replay_rounds = if p.in_replay { ch.range(2, 4) as u32 } else { 0 };
    if p.in_replay && timestamped {
        // the end of a loop body does not accept timestamped elements or watermarks
        // (`IterationEnd`: unreachable!()): like every user of loops, drop them first
        stages.push(TsStage::DropTimestamps);
    }
    TsJob { source, stages, replay_rounds }
}

// ---- oracles ------------------------------------------------------------------------------------

pub type TsGroups<'a> = BTreeMap<(u32, Loc), Vec<&'a ProbeEv>>;

pub fn group(probes: &[ProbeEv]) -> TsGroups<'_> {
    let mut g: TsGroups = BTreeMap::new();
    for e in probes {
        g.entry((e.probe, e.loc)).or_default().push(e);
    }
    g
}

/// C06: after `Watermark(t)`, within the same iteration, no element with timestamp <= t and no
/// watermark <= t, at every probe of every replica. Returns the number of probes that saw >= 2
/// watermarks.
pub fn watermark_safety(g: &TsGroups, info: &[(u32, String)]) -> Result<u64, (u32, String)> {
    let mut interesting = 0;
    for ((p, loc), evs) in g {
        let mut last: Option<i64> = None;
        let mut wms = 0;
        let name = info.iter().find(|i| i.0 == *p).map(|i| i.1.as_str()).unwrap_or("?");
        for e in evs {
            match e.kind {
                ElemKind::Timestamped => {
                    if let (Some(w), Some(ts)) = (last, e.ts) {
                        if ts <= w {
                            return Err((
                                *p,
                                format!(
                                    "probe {p} (after {name}) at {}: element with timestamp {ts} observed after Watermark({w})",
                                    loc_str(*loc)
                                ),
                            ));
                        }
                    }
                }
                ElemKind::Watermark => {
                    let w = e.ts.unwrap();
                    if let Some(l) = last {
                        if w <= l {
                            return Err((
                                *p,
                                format!("probe {p} (after {name}) at {}: Watermark({w}) observed after Watermark({l})", loc_str(*loc)),
                            ));
                        }
                    }
                    last = Some(w);
                    wms += 1;
                }
                ElemKind::FlushAndRestart => last = None,
                _ => {}
            }
        }
        if wms >= 2 {
            interesting += 1;
        }
    }
    Ok(interesting)
}

/// C16: at a probe right after `reorder()` (same replica, same thread as the probe before it):
/// per iteration the output is a permutation of the input with non-decreasing timestamps, and an
/// element with timestamp t leaves only after the input showed a watermark >= t or the end of the
/// iteration.
pub fn reorder_oracle(g: &TsGroups, before: u32, after: u32) -> Result<u64, String> {
    let mut checked = 0;
    for ((p, loc), out) in g.iter().filter(|((p, _), _)| *p == after) {
        let _ = p;
        let Some(inp) = g.get(&(before, *loc)) else {
            return Err(format!("reorder probe at {} has no input probe on the same replica", loc_str(*loc)));
        };
        // split both by iteration
        let split = |evs: &[&ProbeEv]| -> Vec<Vec<ProbeEv>> {
            let mut v = vec![Vec::new()];
            for e in evs {
                if e.kind == ElemKind::FlushAndRestart {
                    v.last_mut().unwrap().push((*e).clone());
                    v.push(Vec::new());
                } else {
                    v.last_mut().unwrap().push((*e).clone());
                }
            }
            v
        };
        let (ii, oo) = (split(inp), split(out));
        for (it, (i, o)) in ii.iter().zip(oo.iter()).enumerate() {
            let mut iv: Vec<(i64, i64)> = i.iter().filter(|e| e.kind == ElemKind::Timestamped).map(|e| (e.v, e.ts.unwrap())).collect();
            let ov: Vec<(i64, i64)> = o.iter().filter(|e| e.kind == ElemKind::Timestamped).map(|e| (e.v, e.ts.unwrap())).collect();
            for w in ov.windows(2) {
                if w[1].1 < w[0].1 {
                    return Err(format!(
                        "reorder at {}, iteration {it}: timestamp {} emitted after {}",
                        loc_str(*loc),
                        w[1].1,
                        w[0].1
                    ));
                }
            }
            let mut os = ov.clone();
            os.sort();
            iv.sort();
            if os != iv {
                return Err(format!(
                    "reorder at {}, iteration {it}: output is not a permutation of the input ({} in, {} out)",
                    loc_str(*loc),
                    iv.len(),
                    os.len()
                ));
            }
            // release rule, using the per-thread total order of the sequence numbers
            for e in o.iter().filter(|e| e.kind == ElemKind::Timestamped) {
                let t = e.ts.unwrap();
                let released = i.iter().any(|x| {
                    x.seq < e.seq
                        && (x.kind == ElemKind::FlushAndRestart
                            || (x.kind == ElemKind::Watermark && x.ts.unwrap() >= t))
                });
                if !released {
                    return Err(format!(
                        "reorder at {}, iteration {it}: element with timestamp {t} released before a watermark >= {t} or the end of the iteration was seen",
                        loc_str(*loc)
                    ));
                }
                checked += 1;
            }
        }
    }
    Ok(checked)
}

/// C07: the timestamp of a fold result is the maximum input timestamp (of the key).
pub fn fold_timestamp_oracle(g: &TsGroups, before: u32, after: u32, key: Option<i64>) -> Result<u64, String> {
    // inputs per iteration over all replicas
    let mut inputs: BTreeMap<usize, Vec<(i64, i64)>> = BTreeMap::new();
    for ((p, _), evs) in g.iter().filter(|((p, _), _)| *p == before) {
        let _ = p;
        let mut it = 0;
        for e in evs {
            match e.kind {
                ElemKind::FlushAndRestart => it += 1,
                ElemKind::Timestamped => inputs.entry(it).or_default().push((e.v, e.ts.unwrap())),
                _ => {}
            }
        }
    }
    let mut checked = 0;
    for ((_, loc), evs) in g.iter().filter(|((p, _), _)| *p == after) {
        let mut it = 0;
        for e in evs {
            match e.kind {
                ElemKind::FlushAndRestart => it += 1,
                ElemKind::Timestamped => {
                    let ins = inputs.get(&it).cloned().unwrap_or_default();
                    let exp: Vec<i64> = match key {
                        None => vec![ins.iter().map(|x| x.1).max().unwrap_or(i64::MIN)],
                        Some(k) => {
                            // the result value identifies the key: mix(key, sum)
                            let mut m: HashMap<i64, (i64, i64)> = HashMap::new();
                            for (v, ts) in &ins {
                                let e = m.entry(v.rem_euclid(k)).or_insert((0, i64::MIN));
                                e.0 = e.0.wrapping_add(*v);
                                e.1 = e.1.max(*ts);
                            }
                            m.iter().filter(|(kk, (sum, _))| mix_pair(Some(**kk), Some(*sum)) == e.v).map(|(_, (_, ts))| *ts).collect()
                        }
                    };
                    checked += 1;
                    if exp.len() != 1 || exp[0] != e.ts.unwrap() {
                        return Err(format!(
                            "fold result at {} in iteration {it} carries timestamp {:?}, the maximum input timestamp is {:?}",
                            loc_str(*loc),
                            e.ts,
                            exp
                        ));
                    }
                }
                ElemKind::Item => {
                    if inputs.get(&it).map_or(false, |v| !v.is_empty()) {
                        return Err(format!("fold over timestamped input produced an element without timestamp at {}", loc_str(*loc)));
                    }
                }
                _ => {}
            }
        }
    }
    Ok(checked)
}

/// A harness operator that moves the timestamp of an element into its value.
#[derive(Clone)]
pub struct Reify<Op: Operator> {
    prev: Op,
}
impl<Op: Operator> Display for Reify<Op> {
    fn fmt(&self, f: &mut Formatter<'_>) -> std::fmt::Result {
        write!(f, "{} -> Reify", self.prev)
    }
}
impl<Op: Operator> Operator for Reify<Op>
where
    Op::Out: Send,
{
    type Out = (Op::Out, Option<i64>);
    fn setup(&mut self, metadata: &mut ExecutionMetadata) {
        self.prev.setup(metadata)
    }
    fn next(&mut self) -> StreamElement<Self::Out> {
        match self.prev.next() {
            StreamElement::Item(x) => StreamElement::Item((x, None)),
            StreamElement::Timestamped(x, ts) => StreamElement::Timestamped((x, Some(ts)), ts),
            StreamElement::Watermark(w) => StreamElement::Watermark(w),
            StreamElement::FlushBatch => StreamElement::FlushBatch,
            StreamElement::FlushAndRestart => StreamElement::FlushAndRestart,
            StreamElement::Terminate => StreamElement::Terminate,
        }
    }
    fn structure(&self) -> BlockStructure {
        self.prev.structure()
    }
}
pub fn reify<Op: Operator + 'static>(s: Stream<Op>) -> Stream<Reify<Op>>
where
    Op::Out: Send,
{
    s.add_operator(|prev| Reify { prev })
}
