//! Pure monitors over the observed histories of one job run.
use std::collections::{BTreeMap, HashMap, HashSet};

use renoir::verif::{ElemKind, Loc};

use crate::engine::JobRun;
use crate::obs::{loc_str, ProbeEv};
use crate::probe::stamp_parts;
use crate::reference::RefOut;

pub type Groups<'a> = BTreeMap<(u32, Loc), Vec<&'a ProbeEv>>;

pub fn group(run: &JobRun) -> Groups<'_> {
    let mut g: Groups = BTreeMap::new();
    for e in &run.probes {
        g.entry((e.probe, e.loc)).or_default().push(e);
    }
    g
}

fn is_data(k: ElemKind) -> bool {
    matches!(k, ElemKind::Item | ElemKind::Timestamped)
}

/// C05 (a): `((Item|Timestamped|Watermark|FlushBatch)* FlushAndRestart)+ Terminate`, Terminate once
/// and last, at every probe of every replica.
pub fn grammar(g: &Groups) -> Result<(), String> {
    for ((p, loc), evs) in g {
        let mut flushes = 0;
        let mut since_flush = 0;
        let mut terminated = false;
        for e in evs {
            if terminated {
                return Err(format!(
                    "probe {p} at {}: {:?} observed after Terminate",
                    loc_str(*loc),
                    e.kind
                ));
            }
            match e.kind {
                ElemKind::FlushAndRestart => {
                    flushes += 1;
                    since_flush = 0;
                }
                ElemKind::Terminate => {
                    if flushes == 0 {
                        return Err(format!(
                            "probe {p} at {}: Terminate without a preceding FlushAndRestart",
                            loc_str(*loc)
                        ));
                    }
                    if since_flush > 0 {
                        return Err(format!(
                            "probe {p} at {}: {since_flush} data elements/watermarks between the last FlushAndRestart and Terminate",
                            loc_str(*loc)
                        ));
                    }
                    terminated = true;
                }
                ElemKind::FlushBatch => {}
                _ => since_flush += 1,
            }
        }
        if !terminated {
            return Err(format!("probe {p} at {}: no Terminate observed", loc_str(*loc)));
        }
    }
    Ok(())
}

/// Split the data elements of a probe sequence by iteration.
fn iterations<'a>(evs: &[&'a ProbeEv]) -> Vec<Vec<&'a ProbeEv>> {
    let mut out = vec![Vec::new()];
    for e in evs {
        match e.kind {
            ElemKind::FlushAndRestart => out.push(Vec::new()),
            k if is_data(k) => out.last_mut().unwrap().push(*e),
            _ => {}
        }
    }
    // the last bucket holds what came after the last FlushAndRestart (nothing, by the grammar)
    out.pop();
    out
}

/// C05 (c) and the data side of C07..C11: at every probe, for every iteration, the multiset of
/// the elements seen by all replicas equals the reference for that iteration; every replica sees
/// the same number of iterations as the reference.
pub fn per_iteration(g: &Groups, reference: &RefOut, skip: &HashSet<u32>) -> Result<(), String> {
    let mut by_probe: BTreeMap<u32, Vec<Vec<(i64, usize)>>> = BTreeMap::new();
    for ((p, loc), evs) in g {
        if skip.contains(p) {
            continue;
        }
        let its = iterations(evs);
        let exp = reference.probes.get(p).map_or(0, |v| v.len());
        if its.len() != exp {
            return Err(format!(
                "probe {p} at {}: observed {} iterations (FlushAndRestart), the reference has {exp}",
                loc_str(*loc),
                its.len()
            ));
        }
        let acc = by_probe.entry(*p).or_insert_with(|| vec![Vec::new(); exp]);
        for (i, it) in its.iter().enumerate() {
            acc[i].extend(it.iter().map(|e| (e.v, e.pad)));
        }
    }
    for (p, its) in by_probe.iter_mut() {
        let exp = &reference.probes[p];
        for (i, got) in its.iter_mut().enumerate() {
            got.sort_unstable();
            if got != &exp[i] {
                return Err(format!(
                    "probe {p}, iteration {i}: observed multiset differs from the reference: {}",
                    diff(&exp[i], got)
                ));
            }
        }
    }
    Ok(())
}

pub fn diff(exp: &[(i64, usize)], got: &[(i64, usize)]) -> String {
    let mut m: BTreeMap<(i64, usize), i64> = BTreeMap::new();
    for e in exp {
        *m.entry(*e).or_default() += 1;
    }
    for g in got {
        *m.entry(*g).or_default() -= 1;
    }
    let missing: Vec<_> = m.iter().filter(|(_, &c)| c > 0).take(5).collect();
    let extra: Vec<_> = m.iter().filter(|(_, &c)| c < 0).take(5).collect();
    format!(
        "expected {} elements, observed {}; missing {:?}, unexpected {:?}",
        exp.len(),
        got.len(),
        missing,
        extra
    )
}

/// C05 (b) iteration alignment on ordinary edges: an element stamped by the upstream probe during
/// the producer's iteration k is observed while this probe has seen exactly k FlushAndRestart.
/// `edges` lists (consumer probe, producer probe) pairs for which the stage in between passes the
/// metadata word through unchanged.
pub fn iteration_alignment(g: &Groups, edges: &[(u32, u32)]) -> Result<u64, String> {
    let map: HashMap<u32, u32> = edges.iter().cloned().collect();
    let mut checked = 0;
    for ((p, loc), evs) in g {
        let Some(prod) = map.get(p) else { continue };
        for e in evs {
            if !is_data(e.kind) {
                continue;
            }
            let (stamper, _gid, iter, _seq) = stamp_parts(e.m_in);
            if stamper != (*prod & 0xfff) {
                continue;
            }
            checked += 1;
            if iter != (e.iter & 0xfff) {
                return Err(format!(
                    "probe {p} at {}: element produced in iteration {iter} of probe {prod} observed in iteration {}",
                    loc_str(*loc),
                    e.iter
                ));
            }
        }
    }
    Ok(checked)
}

/// End-to-end FIFO cross-check (C02, without the hook): for every consumer replica and producer
/// replica the sequence numbers stamped by the producer arrive strictly increasing, and the union
/// over consumers has no duplicates.
pub fn stamped_fifo(g: &Groups, edges: &[(u32, u32)], broadcast_consumers: &HashSet<u32>) -> Result<u64, String> {
    let map: HashMap<u32, u32> = edges.iter().cloned().collect();
    let mut seen: HashMap<(u32, u64, u32, u32), Loc> = HashMap::new();
    let mut checked = 0;
    for ((p, loc), evs) in g {
        let Some(prod) = map.get(p) else { continue };
        let mut last: HashMap<(u64, u32), u32> = HashMap::new();
        for e in evs {
            if !is_data(e.kind) {
                continue;
            }
            let (stamper, gid, iter, seq) = stamp_parts(e.m_in);
            if stamper != (*prod & 0xfff) {
                continue;
            }
            checked += 1;
            if let Some(prev) = last.insert((gid, iter), seq) {
                if seq <= prev {
                    return Err(format!(
                        "probe {p} at {}: elements of producer replica {gid} arrived out of order or twice (seq {seq} after {prev})",
                        loc_str(*loc)
                    ));
                }
            }
            if !broadcast_consumers.contains(p) {
                if let Some(other) = seen.insert((*p, gid, iter, seq), *loc) {
                    if other != *loc {
                        return Err(format!(
                            "probe {p}: element (producer {gid}, iteration {iter}, seq {seq}) delivered to both {} and {}",
                            loc_str(other),
                            loc_str(*loc)
                        ));
                    }
                }
            }
        }
    }
    Ok(checked)
}

/// C10: every element observed by a loop-in probe was processed while the state handle returned
/// exactly the reference's state of the previous round.
pub fn loop_state_alignment(g: &Groups, reference: &RefOut) -> Result<u64, String> {
    let mut checked = 0;
    for ((p, loc), evs) in g {
        let Some(states) = reference.loop_states.get(p) else { continue };
        for e in evs {
            if !is_data(e.kind) {
                continue;
            }
            let Some(st) = e.state else { continue };
            let it = e.iter as usize;
            let Some(exp) = states.get(it) else {
                return Err(format!(
                    "loop probe {p} at {}: element observed in iteration {it}, the reference loop has only {} rounds in total",
                    loc_str(*loc),
                    states.len()
                ));
            };
            checked += 1;
            if st != *exp {
                return Err(format!(
                    "loop probe {p} at {}: iteration {it}: the body read state (round {}, acc {}), the sequential loop defines (round {}, acc {})",
                    loc_str(*loc),
                    st.0,
                    st.1,
                    exp.0,
                    exp.1
                ));
            }
        }
    }
    Ok(checked)
}

/// C04: every worker that started also ended, none by panic.
pub fn workers_done(run: &JobRun) -> Result<usize, String> {
    let w = run.ctx.workers.lock().unwrap();
    if let Some((l, _)) = w.ended.iter().find(|(_, p)| *p) {
        return Err(format!("worker {} ended by panic", loc_str(*l)));
    }
    if w.started.len() != w.ended.len() || !w.live.is_empty() {
        return Err(format!(
            "{} workers started, {} ended, still live: {:?}",
            w.started.len(),
            w.ended.len(),
            w.live.iter().map(|l| loc_str(*l)).collect::<Vec<_>>()
        ));
    }
    Ok(w.started.len())
}

/// C02: the online matcher found no mismatch and every sent batch was received.
pub fn links_clean(run: &JobRun) -> Result<(), String> {
    let v = run.ctx.link_violations.lock().unwrap();
    if let Some(m) = v.first() {
        return Err(m.clone());
    }
    let q = run.ctx.queues.lock().unwrap();
    for ((from, ep), queue) in q.iter() {
        if !queue.is_empty() {
            return Err(format!(
                "{} batches sent by {} to {} were never received (first: {:?})",
                queue.len(),
                loc_str(*from),
                crate::obs::ep_str(*ep),
                queue.front().map(|b| b.iter().map(|e| e.kind).collect::<Vec<_>>())
            ));
        }
    }
    Ok(())
}

// ---- C03: routing -------------------------------------------------------------------------------

#[derive(Default, Debug)]
pub struct RoutingStats {
    pub elements: u64,
    pub group_edges_with_2_keys_2_replicas: u64,
    pub multi_downstream: u64,
    pub forward: u64,
    pub broadcast: u64,
    pub control_links: u64,
}

/// For every element stamped by the last operator of a block: the set of endpoints it was enqueued
/// to must be what the connection kind promises. Control elements reach every connected endpoint.
pub fn routing(run: &JobRun) -> Result<RoutingStats, String> {
    use crate::build::RouteKind;
    use crate::rec::route_pred;
    use renoir::verif::Endpoint;
    let mut stats = RoutingStats::default();
    // replicas of every block
    let mut replicas: HashMap<u64, Vec<Loc>> = HashMap::new();
    for l in &run.ctx.workers.lock().unwrap().started {
        replicas.entry(l.block_id).or_default().push(*l);
    }
    for v in replicas.values_mut() {
        v.sort();
    }
    let kinds: HashMap<u32, Vec<&RouteKind>> = {
        let mut m: HashMap<u32, Vec<&RouteKind>> = HashMap::new();
        for (t, k) in &run.routes {
            m.entry(*t).or_default().push(k);
        }
        m
    };
    // stamped elements by digest
    let mut stamped: HashMap<u64, &ProbeEv> = HashMap::new();
    for e in &run.probes {
        if e.digest != 0 && is_data(e.kind) {
            stamped.insert(e.digest, e);
        }
    }
    // element -> endpoints; also which blocks send stamped data (their last operator is a probe)
    let mut dest: HashMap<u64, Vec<Endpoint>> = HashMap::new();
    let mut traced_blocks: HashMap<u64, u32> = HashMap::new(); // block -> probe id
    for s in &run.sends {
        for el in &s.msg {
            if !is_data(el.kind) {
                continue;
            }
            if let Some(p) = stamped.get(&el.digest) {
                if p.loc == s.from {
                    dest.entry(el.digest).or_default().push(s.ep);
                    traced_blocks.insert(s.from.block_id, p.probe);
                }
            }
        }
    }
    // stamped elements of traced blocks that were sent nowhere
    for (d, p) in &stamped {
        if traced_blocks.get(&p.loc.block_id) == Some(&p.probe) {
            dest.entry(*d).or_default();
        }
    }
    // downstream blocks of every traced block. The head of an `iterate` body also feeds the output
    // block of the loop through the `Iterate` operator itself (not through the block's end): for
    // those blocks only the destinations that received traced data count.
    let loop_heads: std::collections::HashSet<u32> =
        run.probe_info.iter().filter(|p| p.1 == "loop-in").map(|p| p.0).collect();
    // the blocks that hold the head of a loop (whatever operator of theirs stamps last)
    let loop_head_blocks: std::collections::HashSet<u64> =
        run.probes.iter().filter(|e| loop_heads.contains(&e.probe)).map(|e| e.loc.block_id).collect();
    let mut downstream: HashMap<u64, BTreeMap<u64, ()>> = HashMap::new();
    for s in &run.sends {
        if traced_blocks.contains_key(&s.from.block_id) {
            let traced_data = s.msg.iter().any(|el| is_data(el.kind) && stamped.get(&el.digest).map_or(false, |p| p.loc == s.from));
            if !loop_head_blocks.contains(&s.from.block_id) || traced_data {
                downstream.entry(s.from.block_id).or_default().insert(s.ep.to.block_id, ());
            }
        }
    }
    let mut key_home: HashMap<(u64, i64), Loc> = HashMap::new();
    let mut route_block: HashMap<(u32, usize), u64> = HashMap::new();
    let mut group_stats: HashMap<(u64, u64), (std::collections::BTreeSet<i64>, usize)> = HashMap::new();
    for (d, eps) in &dest {
        let p = stamped[d];
        let Some(ks) = kinds.get(&p.probe) else { continue };
        // a probe may be followed by several consumers only through split: one kind per probe here
        let kind = ks[0];
        stats.elements += 1;
        let from_block = p.loc.block_id;
        let down: Vec<u64> = downstream.get(&from_block).map(|m| m.keys().copied().collect()).unwrap_or_default();
        if down.len() >= 2 {
            stats.multi_downstream += 1;
        }
        let per_block = |b: u64| -> Vec<Loc> { eps.iter().filter(|e| e.to.block_id == b).map(|e| e.to).collect() };
        let desc = || format!("element v={} stamped by probe {} at {}", p.v, p.probe, loc_str(p.loc));
        match kind {
            RouteKind::Route(preds) => {
                let rec = crate::rec::Rec { v: p.v, m: 0, pad: Vec::new() };
                let first = preds.iter().position(|q| route_pred(*q)(&rec));
                match first {
                    None => {
                        if !eps.is_empty() {
                            return Err(format!("{}: matches no route but was sent to {:?}", desc(), eps.iter().map(|e| crate::obs::ep_str(*e)).collect::<Vec<_>>()));
                        }
                    }
                    Some(i) => {
                        if eps.len() != 1 {
                            return Err(format!("{}: first matching route is {i}, sent to {} endpoints (expected exactly one)", desc(), eps.len()));
                        }
                        let b = eps[0].to.block_id;
                        if let Some(prev) = route_block.insert((p.probe, i), b) {
                            if prev != b {
                                return Err(format!("{}: route {i} delivered to block {b} and to block {prev}", desc()));
                            }
                        }
                        if route_block.iter().any(|((pp, j), bb)| *pp == p.probe && *j != i && *bb == b) {
                            return Err(format!("{}: two different routes deliver to block {b}", desc()));
                        }
                    }
                }
            }
            _ => {
                for b in &down {
                    let got = per_block(*b);
                    let reps = replicas.get(b).cloned().unwrap_or_default();
                    match kind {
                        RouteKind::Broadcast => {
                            stats.broadcast += 1;
                            let mut g = got.clone();
                            g.sort();
                            if g != reps {
                                return Err(format!("{}: broadcast to block {b} reached {:?}, the block has replicas {:?}", desc(), g.iter().map(|l| loc_str(*l)).collect::<Vec<_>>(), reps.iter().map(|l| loc_str(*l)).collect::<Vec<_>>()));
                            }
                        }
                        _ => {
                            if got.len() != 1 {
                                return Err(format!("{}: {:?} connection to block {b}: enqueued to {} replicas {:?} (expected exactly one)", desc(), kind, got.len(), got.iter().map(|l| loc_str(*l)).collect::<Vec<_>>()));
                            }
                            match kind {
                                RouteKind::Forward => {
                                    stats.forward += 1;
                                    let same = reps.iter().find(|r| r.host_id == p.loc.host_id && r.replica_id == p.loc.replica_id);
                                    if let Some(s) = same {
                                        if got[0] != *s {
                                            return Err(format!("{}: forward connection to block {b} went to {} although the same-index replica exists", desc(), loc_str(got[0])));
                                        }
                                    }
                                }
                                RouteKind::Group(k) | RouteKind::Repart(k) => {
                                    let key = p.v.rem_euclid(*k);
                                    let e = group_stats.entry((from_block, *b)).or_default();
                                    e.0.insert(key);
                                    e.1 = reps.len();
                                    if let Some(prev) = key_home.insert((*b, key), got[0]) {
                                        if prev != got[0] {
                                            return Err(format!("{}: key {key} goes to {} of block {b}, another element with the same key went to {}", desc(), loc_str(got[0]), loc_str(prev)));
                                        }
                                    }
                                }
                                _ => {}
                            }
                        }
                    }
                }
            }
        }
    }
    stats.group_edges_with_2_keys_2_replicas = group_stats.values().filter(|(k, r)| k.len() >= 2 && *r >= 2).count() as u64;
    // control elements: for every traced producer replica and every downstream block, every
    // connected endpoint got every FlushAndRestart, Watermark and one Terminate
    let mut ctrl: HashMap<(Loc, Endpoint), (u64, u64)> = HashMap::new();
    let mut produced: HashMap<Loc, (u64, u64)> = HashMap::new();
    for e in &run.probes {
        if traced_blocks.get(&e.loc.block_id) == Some(&e.probe) {
            let c = produced.entry(e.loc).or_default();
            match e.kind {
                ElemKind::FlushAndRestart => c.0 += 1,
                ElemKind::Terminate => c.1 += 1,
                _ => {}
            }
        }
    }
    for s in &run.sends {
        if !traced_blocks.contains_key(&s.from.block_id) {
            continue;
        }
        let c = ctrl.entry((s.from, s.ep)).or_default();
        for el in &s.msg {
            match el.kind {
                ElemKind::FlushAndRestart => c.0 += 1,
                ElemKind::Terminate => c.1 += 1,
                _ => {}
            }
        }
    }
    for (block, probe) in &traced_blocks {
        let Some(ks) = kinds.get(probe) else { continue };
        let kind = ks[0];
        if matches!(kind, RouteKind::Route(_)) {
            continue;
        }
        let down: Vec<u64> = downstream.get(block).map(|m| m.keys().copied().collect()).unwrap_or_default();
        for from in replicas.get(block).cloned().unwrap_or_default() {
            let Some(prod) = produced.get(&from) else { continue };
            for b in &down {
                let reps = replicas.get(b).cloned().unwrap_or_default();
                let targets: Vec<Loc> = match kind {
                    RouteKind::Forward => {
                        // the single endpoint this replica is connected to
                        let t: Vec<Loc> = ctrl.keys().filter(|(f, e)| *f == from && e.to.block_id == *b).map(|(_, e)| e.to).collect();
                        if t.len() != 1 {
                            return Err(format!("forward connection {} -> block {b}: the producer is connected to {} replicas", loc_str(from), t.len()));
                        }
                        t
                    }
                    _ => reps.clone(),
                };
                for t in targets {
                    let got = ctrl
                        .iter()
                        .filter(|((f, e), _)| *f == from && e.to == t)
                        .map(|(_, c)| *c)
                        .fold((0, 0), |a, c| (a.0 + c.0, a.1 + c.1));
                    stats.control_links += 1;
                    if got.0 != prod.0 || got.1 != prod.1 {
                        return Err(format!(
                            "{} -> {}: the producer emitted {} FlushAndRestart and {} Terminate, the endpoint was sent {} and {}",
                            loc_str(from),
                            loc_str(t),
                            prod.0,
                            prod.1,
                            got.0,
                            got.1
                        ));
                    }
                }
            }
        }
    }
    Ok(stats)
}

/// C19 on running jobs: the replicas of the block every probe sits in are exactly those the
/// declared replication prescribes for the layout (an independent model of the declaration).
pub fn placement(g: &Groups, expected: &BTreeMap<u32, crate::spec::Repl>, cores: &[u64]) -> Result<u64, String> {
    use crate::spec::Repl;
    let mut seen: BTreeMap<u32, Vec<(u64, u64)>> = BTreeMap::new();
    for (p, loc) in g.keys() {
        seen.entry(*p).or_default().push((loc.host_id, loc.replica_id));
    }
    let mut checked = 0;
    for (p, locs) in seen.iter_mut() {
        let Some(r) = expected.get(p) else { continue };
        locs.sort();
        let mut exp: Vec<(u64, u64)> = Vec::new();
        match r {
            Repl::One => exp.push((0, 0)),
            Repl::Host => (0..cores.len()).for_each(|h| exp.push((h as u64, 0))),
            Repl::Unlimited => cores.iter().enumerate().for_each(|(h, c)| (0..*c).for_each(|i| exp.push((h as u64, i)))),
            Repl::Limited(n) => {
                let mut left = (*n).max(1) as u64;
                for (h, c) in cores.iter().enumerate() {
                    let k = left.min(*c);
                    (0..k).for_each(|i| exp.push((h as u64, i)));
                    left -= k;
                }
            }
        }
        checked += 1;
        if *locs != exp {
            return Err(format!(
                "the block of probe {p} is declared {r:?}: on cores {cores:?} it must run on (host, replica) {exp:?}, it runs on {locs:?}"
            ));
        }
    }
    Ok(checked)
}
