//! Pure monitors over the observed histories of one job run.
use std::collections::{BTreeMap, HashMap, HashSet};

use renoir::verif::{ElemKind, Loc};

use crate::engine::JobRun;
use crate::obs::{loc_str, ProbeEv};
use crate::probe::stamp_parts;
use crate::reference::RefOut;

pub type Groups<'a> = BTreeMap<(u32, Loc), Vec<&'a ProbeEv>>;

pub fn group(run: &JobRun) -> Groups<'_> {
    let mut g: Groups = BTreeMap::new();
    for e in &run.probes {
        g.entry((e.probe, e.loc)).or_default().push(e);
    }
    g
}

fn is_data(k: ElemKind) -> bool {
    matches!(k, ElemKind::Item | ElemKind::Timestamped)
}

/// C05 (a): `((Item|Timestamped|Watermark|FlushBatch)* FlushAndRestart)+ Terminate`, Terminate once
/// and last, at every probe of every replica.
pub fn grammar(g: &Groups) -> Result<(), String> {
    for ((p, loc), evs) in g {
        let mut flushes = 0;
        let mut since_flush = 0;
        let mut terminated = false;
        for e in evs {
            if terminated {
                return Err(format!(
                    "probe {p} at {}: {:?} observed after Terminate",
                    loc_str(*loc),
                    e.kind
                ));
            }
            match e.kind {
                ElemKind::FlushAndRestart => {
                    flushes += 1;
                    since_flush = 0;
                }
                ElemKind::Terminate => {
                    if flushes == 0 {
                        return Err(format!(
                            "probe {p} at {}: Terminate without a preceding FlushAndRestart",
                            loc_str(*loc)
                        ));
                    }
                    if since_flush > 0 {
                        return Err(format!(
                            "probe {p} at {}: {since_flush} data elements/watermarks between the last FlushAndRestart and Terminate",
                            loc_str(*loc)
                        ));
                    }
                    terminated = true;
                }
                ElemKind::FlushBatch => {}
                _ => since_flush += 1,
            }
        }
        if !terminated {
            return Err(format!("probe {p} at {}: no Terminate observed", loc_str(*loc)));
        }
    }
    Ok(())
}

/// Split the data elements of a probe sequence by iteration.
fn iterations<'a>(evs: &[&'a ProbeEv]) -> Vec<Vec<&'a ProbeEv>> {
    let mut out = vec![Vec::new()];
    for e in evs {
        match e.kind {
            ElemKind::FlushAndRestart => out.push(Vec::new()),
            k if is_data(k) => out.last_mut().unwrap().push(*e),
            _ => {}
        }
    }
    // the last bucket holds what came after the last FlushAndRestart (nothing, by the grammar)
    out.pop();
    out
}

/// C05 (c) and the data side of C07..C11: at every probe, for every iteration, the multiset of
/// the elements seen by all replicas equals the reference for that iteration; every replica sees
/// the same number of iterations as the reference.
pub fn per_iteration(g: &Groups, reference: &RefOut, skip: &HashSet<u32>) -> Result<(), String> {
    let mut by_probe: BTreeMap<u32, Vec<Vec<(i64, usize)>>> = BTreeMap::new();
    for ((p, loc), evs) in g {
        if skip.contains(p) {
            continue;
        }
        let its = iterations(evs);
        let exp = reference.probes.get(p).map_or(0, |v| v.len());
        if its.len() != exp {
            return Err(format!(
                "probe {p} at {}: observed {} iterations (FlushAndRestart), the reference has {exp}",
                loc_str(*loc),
                its.len()
            ));
        }
        let acc = by_probe.entry(*p).or_insert_with(|| vec![Vec::new(); exp]);
        for (i, it) in its.iter().enumerate() {
            acc[i].extend(it.iter().map(|e| (e.v, e.pad)));
        }
    }
    for (p, its) in by_probe.iter_mut() {
        let exp = &reference.probes[p];
        for (i, got) in its.iter_mut().enumerate() {
            got.sort_unstable();
            if got != &exp[i] {
                return Err(format!(
                    "probe {p}, iteration {i}: observed multiset differs from the reference: {}",
                    diff(&exp[i], got)
                ));
            }
        }
    }
    Ok(())
}

pub fn diff(exp: &[(i64, usize)], got: &[(i64, usize)]) -> String {
    let mut m: BTreeMap<(i64, usize), i64> = BTreeMap::new();
    for e in exp {
        *m.entry(*e).or_default() += 1;
    }
    for g in got {
        *m.entry(*g).or_default() -= 1;
    }
    let missing: Vec<_> = m.iter().filter(|(_, &c)| c > 0).take(5).collect();
    let extra: Vec<_> = m.iter().filter(|(_, &c)| c < 0).take(5).collect();
    format!(
        "expected {} elements, observed {}; missing {:?}, unexpected {:?}",
        exp.len(),
        got.len(),
        missing,
        extra
    )
}

/// C05 (b) iteration alignment on ordinary edges: an element stamped by the upstream probe during
/// the producer's iteration k is observed while this probe has seen exactly k FlushAndRestart.
/// `edges` lists (consumer probe, producer probe) pairs for which the stage in between passes the
/// metadata word through unchanged.
pub fn iteration_alignment(g: &Groups, edges: &[(u32, u32)]) -> Result<u64, String> {
    let map: HashMap<u32, u32> = edges.iter().cloned().collect();
    let mut checked = 0;
    for ((p, loc), evs) in g {
        let Some(prod) = map.get(p) else { continue };
        for e in evs {
            if !is_data(e.kind) {
                continue;
            }
            let (stamper, _gid, iter, _seq) = stamp_parts(e.m_in);
            if stamper != (*prod & 0xfff) {
                continue;
            }
            checked += 1;
            if iter != (e.iter & 0xfff) {
                return Err(format!(
                    "probe {p} at {}: element produced in iteration {iter} of probe {prod} observed in iteration {}",
                    loc_str(*loc),
                    e.iter
                ));
            }
        }
    }
    Ok(checked)
}

/// End-to-end FIFO cross-check (C02, without the hook): for every consumer replica and producer
/// replica the sequence numbers stamped by the producer arrive strictly increasing, and the union
/// over consumers has no duplicates.
pub fn stamped_fifo(g: &Groups, edges: &[(u32, u32)], broadcast_consumers: &HashSet<u32>) -> Result<u64, String> {
    let map: HashMap<u32, u32> = edges.iter().cloned().collect();
    let mut seen: HashMap<(u32, u64, u32, u32), Loc> = HashMap::new();
    let mut checked = 0;
    for ((p, loc), evs) in g {
        let Some(prod) = map.get(p) else { continue };
        let mut last: HashMap<(u64, u32), u32> = HashMap::new();
        for e in evs {
            if !is_data(e.kind) {
                continue;
            }
            let (stamper, gid, iter, seq) = stamp_parts(e.m_in);
            if stamper != (*prod & 0xfff) {
                continue;
            }
            checked += 1;
            if let Some(prev) = last.insert((gid, iter), seq) {
                if seq <= prev {
                    return Err(format!(
                        "probe {p} at {}: elements of producer replica {gid} arrived out of order or twice (seq {seq} after {prev})",
                        loc_str(*loc)
                    ));
                }
            }
            if !broadcast_consumers.contains(p) {
                if let Some(other) = seen.insert((*p, gid, iter, seq), *loc) {
                    if other != *loc {
                        return Err(format!(
                            "probe {p}: element (producer {gid}, iteration {iter}, seq {seq}) delivered to both {} and {}",
                            loc_str(other),
                            loc_str(*loc)
                        ));
                    }
                }
            }
        }
    }
    Ok(checked)
}

/// C10: every element observed by a loop-in probe was processed while the state handle returned
/// exactly the reference's state of the previous round.
pub fn loop_state_alignment(g: &Groups, reference: &RefOut) -> Result<u64, String> {
    let mut checked = 0;
    for ((p, loc), evs) in g {
        let Some(states) = reference.loop_states.get(p) else { continue };
        for e in evs {
            if !is_data(e.kind) {
                continue;
            }
            let Some(st) = e.state else { continue };
            let it = e.iter as usize;
            let Some(exp) = states.get(it) else {
                return Err(format!(
                    "loop probe {p} at {}: element observed in iteration {it}, the reference loop has only {} rounds in total",
                    loc_str(*loc),
                    states.len()
                ));
            };
            checked += 1;
            if st != *exp {
                return Err(format!(
                    "loop probe {p} at {}: iteration {it}: the body read state (round {}, acc {}), the sequential loop defines (round {}, acc {})",
                    loc_str(*loc),
                    st.0,
                    st.1,
                    exp.0,
                    exp.1
                ));
            }
        }
    }
    Ok(checked)
}

/// C04: every worker that started also ended, none by panic.
pub fn workers_done(run: &JobRun) -> Result<usize, String> {
    let w = run.ctx.workers.lock().unwrap();
    if let Some((l, _)) = w.ended.iter().find(|(_, p)| *p) {
        return Err(format!("worker {} ended by panic", loc_str(*l)));
    }
    if w.started.len() != w.ended.len() || !w.live.is_empty() {
        return Err(format!(
            "{} workers started, {} ended, still live: {:?}",
            w.started.len(),
            w.ended.len(),
            w.live.iter().map(|l| loc_str(*l)).collect::<Vec<_>>()
        ));
    }
    Ok(w.started.len())
}

/// C02: the online matcher found no mismatch and every sent batch was received.
pub fn links_clean(run: &JobRun) -> Result<(), String> {
    let v = run.ctx.link_violations.lock().unwrap();
    if let Some(m) = v.first() {
        return Err(m.clone());
    }
    let q = run.ctx.queues.lock().unwrap();
    for ((from, ep), queue) in q.iter() {
        if !queue.is_empty() {
            return Err(format!(
                "{} batches sent by {} to {} were never received (first: {:?})",
                queue.len(),
                loc_str(*from),
                crate::obs::ep_str(*ep),
                queue.front().map(|b| b.iter().map(|e| e.kind).collect::<Vec<_>>())
            ));
        }
    }
    Ok(())
}
