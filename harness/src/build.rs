//! Realise a `JobSpec` on the real engine through the public API.
use std::sync::{Arc, Mutex};

use renoir::operator::sink::StreamOutput;
use renoir::operator::window::CountWindow;
use renoir::{IterationStateHandle, StreamContext};

use crate::dynop::{erase, DStream};
use crate::probe::probe;
use crate::rec::{mix64, mix_pair, route_pred, Agg, LoopState, Rec};
use crate::spec::*;

/// What one host observed at one sink after `execute_blocking`.
#[derive(Clone, Debug, PartialEq, Eq, serde::Serialize, serde::Deserialize)]
pub enum SinkOut {
    /// `StreamOutput::get()` returned `None`
    Nothing,
    Items(Vec<(i64, usize)>),
    Count(usize),
    /// drained channel + whether it disconnected
    Channel(Vec<(i64, usize)>, bool),
}

/// How the elements stamped by a probe leave its block (for the routing oracle of C03).
#[derive(Clone, Debug, PartialEq, Eq)]
pub enum RouteKind {
    Forward,
    Shuffle,
    /// group-by connection on `v.rem_euclid(k)`
    Group(i64),
    /// `repartition_by` on `v.rem_euclid(k)`
    Repart(i64),
    Broadcast,
    Route(Vec<u8>),
}

pub type SinkCollector = Box<dyn FnOnce() -> SinkOut + Send>;

#[derive(Clone, Debug, Default)]
pub struct BuildOpts {
    /// insert a logging probe after the source and after every stage
    pub probes: bool,
    /// probes also stamp the metadata word (so that elements can be traced across links)
    pub stamp: bool,
    pub batch: Option<BatchSpec>,
    /// crash injection: the `n`-th user closure (in build order) panics, in every replica, when it
    /// is called for the `k`-th time
    pub crash: Option<(u32, u64)>,
}

pub struct Builder<'a> {
    pub env: &'a StreamContext,
    pub opts: BuildOpts,
    pub next_probe: u32,
    pub next_closure: u32,
    pub sinks: Vec<SinkCollector>,
    /// (probe id, description, loop depth)
    pub probe_info: Vec<(u32, String, usize)>,
    /// (consumer probe, producer probe, stage) for stages that pass elements through unchanged
    pub edges: Vec<(u32, u32, &'static str)>,
    /// (producer probe, how its elements are routed out of the block)
    pub routes: Vec<(u32, RouteKind)>,
    cur_tap: u32,
    states: Vec<IterationStateHandle<LoopState>>,
}

/// Count a call of an instrumented user closure and panic at the configured one.
fn crash_tick(crash: Option<u64>, calls: &std::cell::Cell<u64>) {
    if let Some(k) = crash {
        // bits 40.. of the call count: milliseconds the closure sleeps before it panics (a replica
        // that fails slowly, while the rest of the job goes idle)
        let (delay_ms, k) = (k >> 40, k & ((1u64 << 40) - 1));
        calls.set(calls.get() + 1);
        if calls.get() == k {
            if delay_ms > 0 {
                std::thread::sleep(std::time::Duration::from_millis(delay_ms));
            }
            panic!("injected crash");
        }
    }
}

fn rec_of(v: i64) -> Rec {
    Rec::new(v)
}

/// Sequential hash of an ordered group (used for the `Collect` window aggregator).
pub fn seq_hash(vs: &[i64]) -> i64 {
    let mut h = 0x1234_5678u64;
    for &v in vs {
        h = mix64(h ^ (v as u64));
    }
    (h >> 16) as i64
}

pub fn keyed_out(key: i64, val: i64) -> Rec {
    rec_of(mix_pair(Some(key), Some(val)))
}

impl<'a> Builder<'a> {
    pub fn new(env: &'a StreamContext, opts: BuildOpts) -> Self {
        Builder {
            env,
            opts,
            next_probe: 0,
            next_closure: 0,
            sinks: Vec::new(),
            probe_info: Vec::new(),
            edges: Vec::new(),
            routes: Vec::new(),
            cur_tap: 0,
            states: Vec::new(),
        }
    }

    /// Allocate the next probe id and, if enabled, insert the probe.
    fn tap(&mut self, s: DStream<Rec>, what: &str) -> DStream<Rec> {
        let id = self.next_probe;
        self.next_probe += 1;
        self.cur_tap = id;
        self.probe_info
            .push((id, what.to_string(), self.states.len()));
        if self.opts.probes {
            erase(probe(
                s,
                id,
                true,
                self.opts.stamp,
                self.states.last().cloned(),
            ))
        } else {
            s
        }
    }

    /// Crash trigger for the next user closure.
    fn crash_for_closure(&mut self) -> Option<u64> {
        let id = self.next_closure;
        self.next_closure += 1;
        match self.opts.crash {
            Some((n, v)) if n == id => Some(v),
            _ => None,
        }
    }

    pub fn source(&mut self, src: &SourceSpec) -> DStream<Rec> {
        let s = match src {
            SourceSpec::Iter(v) => erase(self.env.stream_iter(v.clone().into_iter())),
            SourceSpec::Par(v) => {
                let v = Arc::new(v.clone());
                erase(self.env.stream_par_iter(move |id: u64, n: u64| {
                    let v = v.clone();
                    let mut i = id as usize;
                    std::iter::from_fn(move || {
                        let r = v.get(i).cloned();
                        i += n as usize;
                        r
                    })
                }))
            }
            SourceSpec::Range(a, b) => erase(self.env.stream_par_iter(*a..*b).map(Rec::new)),
        };
        let s = match self.opts.batch {
            Some(b) => s.batch_mode(b.to_mode()),
            None => s,
        };
        self.tap(s, "source")
    }

    pub fn pipe(&mut self, p: &Pipe) -> DStream<Rec> {
        let s = self.source(&p.source);
        self.stages(s, &p.stages)
    }

    pub fn stages(&mut self, mut s: DStream<Rec>, stages: &[Stage]) -> DStream<Rec> {
        for st in stages {
            let prod = self.cur_tap;
            match st {
                Stage::Shuffle => self.routes.push((prod, RouteKind::Shuffle)),
                Stage::Broadcast => self.routes.push((prod, RouteKind::Broadcast)),
                Stage::Replicate(_) | Stage::Fork { .. } | Stage::Diamond { .. } => {
                    self.routes.push((prod, RouteKind::Forward))
                }
                Stage::GlobalAgg { form: GlobalForm::Fold, .. } => self.routes.push((prod, RouteKind::Forward)),
                Stage::Repartition(_, k) => self.routes.push((prod, RouteKind::Repart((*k).max(1)))),
                Stage::KeyedMap(k, _) | Stage::CountWindow { k, .. } => {
                    self.routes.push((prod, RouteKind::Group((*k).max(1))))
                }
                Stage::KeyedAgg { form, k, .. }
                    if matches!(
                        form,
                        KeyedForm::GroupByThenFold | KeyedForm::GroupByThenReduce | KeyedForm::KeyedRichMap
                    ) =>
                {
                    self.routes.push((prod, RouteKind::Group((*k).max(1))))
                }
                Stage::Route { preds, .. } => self.routes.push((prod, RouteKind::Route(preds.clone()))),
                _ => {}
            }
            s = self.stage(s, st);
            if matches!(
                st,
                Stage::Map(_)
                    | Stage::Filter(_)
                    | Stage::FilterMap(..)
                    | Stage::Shuffle
                    | Stage::Broadcast
                    | Stage::Replicate(_)
                    | Stage::Repartition(..)
                    | Stage::Batch(_)
                    | Stage::KeyedMap(..)
            ) {
                self.edges.push((self.cur_tap, prod, stage_name(st)));
            }
        }
        s
    }

    pub fn job(&mut self, job: &JobSpec) {
        let s = self.pipe(&job.pipe);
        self.sink(s, job.sink);
    }

    pub fn sink(&mut self, s: DStream<Rec>, kind: SinkKind) {
        match kind {
            SinkKind::CollectVec | SinkKind::Collect | SinkKind::CollectChannel => {
                self.routes.push((self.cur_tap, RouteKind::Forward))
            }
            SinkKind::CollectVecAll => self.routes.push((self.cur_tap, RouteKind::Broadcast)),
            _ => {}
        }
        fn norm(v: Vec<Rec>) -> Vec<(i64, usize)> {
            v.iter().map(|r| r.obs()).collect()
        }
        let c: SinkCollector = match kind {
            SinkKind::CollectVec => {
                let out: StreamOutput<Vec<Rec>> = s.collect_vec();
                Box::new(move || out.get().map(|v| SinkOut::Items(norm(v))).unwrap_or(SinkOut::Nothing))
            }
            SinkKind::CollectVecAll => {
                let out: StreamOutput<Vec<Rec>> = s.collect_vec_all();
                Box::new(move || out.get().map(|v| SinkOut::Items(norm(v))).unwrap_or(SinkOut::Nothing))
            }
            SinkKind::Collect => {
                let out: StreamOutput<std::collections::LinkedList<Rec>> = s.collect();
                Box::new(move || {
                    out.get()
                        .map(|v| SinkOut::Items(norm(v.into_iter().collect())))
                        .unwrap_or(SinkOut::Nothing)
                })
            }
            SinkKind::CollectCount => {
                let out = s.collect_count();
                Box::new(move || out.get().map(SinkOut::Count).unwrap_or(SinkOut::Nothing))
            }
            SinkKind::CollectChannel => {
                let rx = s.collect_channel();
                Box::new(move || {
                    let mut v = Vec::new();
                    let mut disconnected = false;
                    loop {
                        match rx.try_recv() {
                            Ok(r) => v.push(r),
                            Err(e) => {
                                disconnected = format!("{e:?}").contains("Disconnected");
                                break;
                            }
                        }
                    }
                    SinkOut::Channel(norm(v), disconnected)
                })
            }
            SinkKind::ForEach => {
                let acc: Arc<Mutex<Vec<Rec>>> = Arc::new(Mutex::new(Vec::new()));
                let acc2 = acc.clone();
                s.for_each(move |r| acc2.lock().unwrap().push(r));
                Box::new(move || SinkOut::Items(norm(std::mem::take(&mut *acc.lock().unwrap()))))
            }
        };
        self.sinks.push(c);
    }

    fn route_of_comb(&mut self, tap: u32, comb: &Combine, left: bool) {
        let kind = match comb {
            Combine::Merge | Combine::Zip | Combine::ZipCount => RouteKind::Forward,
            Combine::Join(_, JoinAlgo::BcHash | JoinAlgo::BcSortMerge, _) => {
                if left {
                    RouteKind::Forward
                } else {
                    RouteKind::Broadcast
                }
            }
            Combine::Join(_, JoinAlgo::KeyedAfterAgg, _) if left => return,
            Combine::Join(_, _, k) => RouteKind::Group((*k).max(1)),
        };
        self.routes.push((tap, kind));
    }

    fn combine(&mut self, l: DStream<Rec>, r: DStream<Rec>, comb: &Combine) -> DStream<Rec> {
        match *comb {
            Combine::Merge => erase(l.merge(r)),
            Combine::Zip => erase(l.zip(r).map(|(a, b)| rec_of(mix_pair(Some(a.v), Some(b.v))))),
            Combine::ZipCount => erase(l.zip(r).map(|_| rec_of(1))),
            Combine::Join(kind, algo, k) => {
                let k = k.max(1);
                let k1 = move |r: &Rec| r.v.rem_euclid(k);
                let k2 = move |r: &Rec| r.v.rem_euclid(k);
                fn inner(x: (i64, (Rec, Rec))) -> Rec {
                    rec_of(mix_pair(Some(x.1 .0.v), Some(x.1 .1.v)))
                }
                fn left(x: (i64, (Rec, Option<Rec>))) -> Rec {
                    rec_of(mix_pair(Some(x.1 .0.v), x.1 .1.map(|r| r.v)))
                }
                fn outer(x: (i64, (Option<Rec>, Option<Rec>))) -> Rec {
                    rec_of(mix_pair(x.1 .0.map(|r| r.v), x.1 .1.map(|r| r.v)))
                }
                match (algo, kind) {
                    (JoinAlgo::Shortcut, JoinKind::Inner) => erase(l.join(r, k1, k2).unkey().map(inner)),
                    (JoinAlgo::Shortcut, JoinKind::Left) => erase(l.left_join(r, k1, k2).unkey().map(left)),
                    (JoinAlgo::Shortcut, JoinKind::Outer) => erase(l.outer_join(r, k1, k2).unkey().map(outer)),
                    (JoinAlgo::HashHash, JoinKind::Inner) => {
                        erase(l.join_with(r, k1, k2).ship_hash().local_hash().inner().unkey().map(inner))
                    }
                    (JoinAlgo::HashHash, JoinKind::Left) => {
                        erase(l.join_with(r, k1, k2).ship_hash().local_hash().left().unkey().map(left))
                    }
                    (JoinAlgo::HashHash, JoinKind::Outer) => {
                        erase(l.join_with(r, k1, k2).ship_hash().local_hash().outer().unkey().map(outer))
                    }
                    (JoinAlgo::HashSortMerge, JoinKind::Inner) => erase(
                        l.join_with(r, k1, k2).ship_hash().local_sort_merge().inner().unkey().map(inner),
                    ),
                    (JoinAlgo::HashSortMerge, JoinKind::Left) => erase(
                        l.join_with(r, k1, k2).ship_hash().local_sort_merge().left().unkey().map(left),
                    ),
                    (JoinAlgo::HashSortMerge, JoinKind::Outer) => erase(
                        l.join_with(r, k1, k2).ship_hash().local_sort_merge().outer().unkey().map(outer),
                    ),
                    (JoinAlgo::BcHash, JoinKind::Inner) => {
                        erase(l.join_with(r, k1, k2).ship_broadcast_right().local_hash().inner().map(inner))
                    }
                    (JoinAlgo::BcHash, _) => {
                        erase(l.join_with(r, k1, k2).ship_broadcast_right().local_hash().left().map(left))
                    }
                    (JoinAlgo::BcSortMerge, JoinKind::Inner) => erase(
                        l.join_with(r, k1, k2).ship_broadcast_right().local_sort_merge().inner().map(inner),
                    ),
                    (JoinAlgo::BcSortMerge, _) => erase(
                        l.join_with(r, k1, k2).ship_broadcast_right().local_sort_merge().left().map(left),
                    ),
                    (JoinAlgo::Keyed, JoinKind::Outer) | (JoinAlgo::Keyed, JoinKind::Left) => {
                        erase(l.group_by(k1).join_outer(r.group_by(k2)).unkey().map(outer))
                    }
                    (JoinAlgo::KeyedAfterAgg, _) => erase(
                        l.group_by_count(k1)
                            .join(r.group_by(k2))
                            .unkey()
                            .map(|(_, (c, r)): (i64, (usize, Rec))| rec_of(mix_pair(Some(c as i64), Some(r.v)))),
                    ),
                    (JoinAlgo::Keyed, JoinKind::Inner) => {
                        erase(l.group_by(k1).join(r.group_by(k2)).unkey().map(inner))
                    }
                }
            }
        }
    }

    fn loop_fns(
        l: &LoopSpec,
    ) -> (
        impl Fn(&mut i64, Rec) + Send + Clone + 'static,
        impl Fn(&mut LoopState, i64) + Send + Clone + 'static,
        impl Fn(&mut LoopState) -> bool + Send + Clone + 'static,
    ) {
        let stop_after = l.stop_after as u32;
        let stop_acc = l.stop_acc;
        (
            |d: &mut i64, x: Rec| *d = d.wrapping_add(x.v.rem_euclid(1009)),
            |s: &mut LoopState, d: i64| s.acc = s.acc.wrapping_add(d),
            move |s: &mut LoopState| {
                s.round += 1;
                s.round < stop_after && stop_acc.map_or(true, |t| s.acc < t)
            },
        )
    }

    pub fn stage(&mut self, s: DStream<Rec>, st: &Stage) -> DStream<Rec> {
        let out: DStream<Rec> = match st {
            Stage::Map(f) => {
                let f = *f;
                let crash = self.crash_for_closure();
                let calls = std::cell::Cell::new(0u64);
                let state = self.states.last().cloned();
                erase(s.map(move |mut r: Rec| {
                    crash_tick(crash, &calls);
                    let acc = state.as_ref().map_or(0, |h| h.get().acc);
                    f.side_effect(r.v);
                    r.v = f.apply(r.v, acc);
                    r
                }))
            }
            Stage::Filter(f) => {
                let f = *f;
                let crash = self.crash_for_closure();
                let calls = std::cell::Cell::new(0u64);
                let state = self.states.last().cloned();
                erase(s.filter(move |r: &Rec| {
                    crash_tick(crash, &calls);
                    f.keep(r.v, state.as_ref().map_or(0, |h| h.get().acc))
                }))
            }
            Stage::FlatMap(f) => {
                let f = *f;
                let crash = self.crash_for_closure();
                let calls = std::cell::Cell::new(0u64);
                erase(s.flat_map(move |r: Rec| {
                    crash_tick(crash, &calls);
                    f.apply(r.v).into_iter().map(rec_of).collect::<Vec<_>>()
                }))
            }
            Stage::FilterMap(f, g) => {
                let (f, g) = (*f, *g);
                let crash = self.crash_for_closure();
                let calls = std::cell::Cell::new(0u64);
                erase(s.filter_map(move |mut r: Rec| {
                    crash_tick(crash, &calls);
                    if f.keep(r.v, 0) {
                        r.v = g.apply(r.v, 0);
                        Some(r)
                    } else {
                        None
                    }
                }))
            }
            Stage::RichIndex => erase(s.rich_map({
                let mut i = 0i64;
                move |mut r: Rec| {
                    r.v = r.v.wrapping_mul(31).wrapping_add(i);
                    i += 1;
                    r
                }
            })),
            Stage::Shuffle => erase(s.shuffle()),
            Stage::Broadcast => erase(s.broadcast()),
            Stage::Replicate(r) => erase(s.replication(r.to_engine())),
            Stage::Repartition(r, k) => {
                let k = (*k).max(1);
                erase(s.repartition_by(r.to_engine(), move |x: &Rec| crate::rec::mix64(x.v.rem_euclid(k) as u64)))
            }
            Stage::Batch(b) => s.batch_mode(b.to_mode()),
            Stage::KeyedMap(k, f) => {
                let (k, f) = (k.max(&1).to_owned(), *f);
                erase(
                    s.group_by(move |r: &Rec| r.v.rem_euclid(k))
                        .map(move |(_key, mut r): (&i64, Rec)| {
                            r.v = f.apply(r.v, 0);
                            r
                        })
                        .drop_key(),
                )
            }
            Stage::KeyedAgg { form, k, agg } => self.keyed_agg(s, *form, (*k).max(1), *agg),
            Stage::GlobalAgg { form, agg } => {
                let agg = *agg;
                let id = agg.identity();
                match form {
                    GlobalForm::Fold => erase(
                        s.fold(id, move |a: &mut i64, r: Rec| *a = agg.combine(*a, agg.lift(r.v)))
                            .map(rec_of),
                    ),
                    GlobalForm::FoldAssoc => erase(
                        s.fold_assoc(
                            id,
                            move |a: &mut i64, r: Rec| *a = agg.combine(*a, agg.lift(r.v)),
                            move |a: &mut i64, b: i64| *a = agg.combine(*a, b),
                        )
                        .map(rec_of),
                    ),
                    GlobalForm::Reduce => erase(
                        s.map(move |r: Rec| agg.lift(r.v))
                            .reduce(move |a: i64, b: i64| agg.combine(a, b))
                            .map(rec_of),
                    ),
                    GlobalForm::ReduceAssoc => erase(
                        s.map(move |r: Rec| agg.lift(r.v))
                            .reduce_assoc(move |a: i64, b: i64| agg.combine(a, b))
                            .map(rec_of),
                    ),
                }
            }
            Stage::CountWindow { k, n, s: slide, exact, aggr } => {
                let k = (*k).max(1);
                let (n, slide) = ((*n).max(1) as usize, (*slide).max(1) as usize);
                let w = s
                    .group_by(move |r: &Rec| r.v.rem_euclid(k))
                    .map(|(_k, r): (&i64, Rec)| r.v)
                    .window::<i64, _>(CountWindow::new(n, slide.min(n), *exact));
                match aggr {
                    WinAggr::Collect => erase(
                        w.map(|v: Vec<i64>| seq_hash(&v))
                            .unkey()
                            .map(|(k, v)| keyed_out(k, v)),
                    ),
                    WinAggr::Fold => erase(
                        w.fold(Vec::new(), |acc: &mut Vec<i64>, x: i64| acc.push(x))
                            .unkey()
                            .map(|(k, v)| keyed_out(k, seq_hash(&v))),
                    ),
                    WinAggr::Sum => erase(w.sum::<i64>().unkey().map(|(k, v)| keyed_out(k, v))),
                    WinAggr::Count => erase(w.count().unkey().map(|(k, v)| keyed_out(k, v as i64))),
                    WinAggr::Min => erase(w.min().unkey().map(|(k, v)| keyed_out(k, v))),
                    WinAggr::Max => erase(w.max().unkey().map(|(k, v)| keyed_out(k, v))),
                    WinAggr::First => erase(w.first().unkey().map(|(k, v)| keyed_out(k, v))),
                    WinAggr::Last => erase(w.last().unkey().map(|(k, v)| keyed_out(k, v))),
                }
            }
            Stage::Fork { branch, sink } => {
                let mut parts = s.split(2);
                let main = erase(parts.pop().unwrap());
                let side = erase(parts.pop().unwrap());
                let input_tap = self.cur_tap;
                let side = self.stages(side, branch);
                self.sink(side, *sink);
                self.cur_tap = input_tap;
                main
            }
            Stage::Diamond { left, right, comb } => {
                let mut parts = s.split(2);
                let r = erase(parts.pop().unwrap());
                let l = erase(parts.pop().unwrap());
                let input_tap = self.cur_tap;
                let l = self.stages(l, left);
                let lt = self.cur_tap;
                self.cur_tap = input_tap;
                let r = self.stages(r, right);
                let rt = self.cur_tap;
                if !left.is_empty() {
                    self.route_of_comb(lt, comb, true);
                }
                if !right.is_empty() {
                    self.route_of_comb(rt, comb, false);
                }
                self.combine(l, r, comb)
            }
            Stage::With { other, comb } => {
                // the other pipeline starts from the environment, i.e. outside of any loop
                let lt = self.cur_tap;
                let saved = std::mem::take(&mut self.states);
                let o = self.pipe(other);
                self.states = saved;
                let rt = self.cur_tap;
                self.route_of_comb(lt, comb, true);
                self.route_of_comb(rt, comb, false);
                self.combine(s, o, comb)
            }
            Stage::Route { preds, branches } => {
                let mut rb = s.route();
                for p in preds {
                    rb = rb.add_route(route_pred(*p));
                }
                let outs = rb.build();
                let mut merged: Option<DStream<Rec>> = None;
                let input_tap = self.cur_tap;
                for (o, b) in outs.into_iter().zip(branches.iter()) {
                    self.cur_tap = input_tap;
                    let o = self.stages(erase(o), b);
                    let o = erase(o.shuffle());
                    merged = Some(match merged {
                        None => o,
                        Some(m) => erase(m.merge(o)),
                    });
                }
                merged.expect("route without branches")
            }
            Stage::Replay(l) => {
                let (lf, gf, cond) = Self::loop_fns(l);
                let init = LoopState { round: 0, acc: l.init_acc };
                let body = l.body.clone();
                // SAFETY: the body closure is invoked synchronously inside `replay`, while `self` is
                // still exclusively borrowed by this call; the raw pointer only erases the lifetime
                // (the opaque return type of `replay` captures the closure type, which must be
                // 'static for the type erasure).
                let this_ptr = self as *mut Builder<'a> as *mut Builder<'static>;
                let state_stream = s.replay(
                    l.max as usize,
                    init,
                    move |s, state| {
                        let this: &mut Builder<'static> = unsafe { &mut *this_ptr };
                        this.states.push(state);
                        let s = this.tap(erase(s), "loop-in");
                        let s = this.stages(s, &body);
                        this.states.pop();
                        s
                    },
                    lf,
                    gf,
                    cond,
                );
                erase(state_stream.map(|st: LoopState| rec_of(mix_pair(Some(st.round as i64), Some(st.acc)))))
            }
            Stage::Iterate(l) => {
                let (lf, gf, cond) = Self::loop_fns(l);
                let init = LoopState { round: 0, acc: l.init_acc };
                let body = l.body.clone();
                // SAFETY: as for `replay` above.
                let this_ptr = self as *mut Builder<'a> as *mut Builder<'static>;
                let (state_stream, out) = s.iterate(
                    l.max as usize,
                    init,
                    move |s, state| {
                        let this: &mut Builder<'static> = unsafe { &mut *this_ptr };
                        this.states.push(state);
                        let s = this.tap(erase(s), "loop-in");
                        let s = this.stages(s, &body);
                        this.states.pop();
                        s
                    },
                    lf,
                    gf,
                    cond,
                );
                let st = erase(state_stream.map(|st: LoopState| rec_of(mix_pair(Some(st.round as i64), Some(st.acc)))));
                // the state stream carries no probe: no routing claim for its sink
                self.cur_tap = u32::MAX;
                self.sink(st, SinkKind::CollectVec);
                erase(out)
            }
        };
        self.tap(out, stage_name(st))
    }

    fn keyed_agg(&mut self, s: DStream<Rec>, form: KeyedForm, k: i64, agg: Agg) -> DStream<Rec> {
        let keyer = move |r: &Rec| r.v.rem_euclid(k);
        let id = agg.identity();
        match form {
            KeyedForm::GroupByThenFold => erase(
                s.group_by(keyer)
                    .fold(id, move |a: &mut i64, r: Rec| *a = agg.combine(*a, agg.lift(r.v)))
                    .unkey()
                    .map(|(k, v)| keyed_out(k, v)),
            ),
            KeyedForm::GroupByThenReduce => erase(
                s.group_by(keyer)
                    .map(move |(_k, r): (&i64, Rec)| agg.lift(r.v))
                    .reduce(move |a: &mut i64, b: i64| *a = agg.combine(*a, b))
                    .unkey()
                    .map(|(k, v)| keyed_out(k, v)),
            ),
            KeyedForm::GroupByFold => erase(
                s.group_by_fold(
                    keyer,
                    id,
                    move |a: &mut i64, r: Rec| *a = agg.combine(*a, agg.lift(r.v)),
                    move |a: &mut i64, b: i64| *a = agg.combine(*a, b),
                )
                .unkey()
                .map(|(k, v)| keyed_out(k, v)),
            ),
            KeyedForm::GroupByReduce => erase(
                s.map(move |r: Rec| (r.v.rem_euclid(k), agg.lift(r.v)))
                    .group_by_reduce(
                        |x: &(i64, i64)| x.0,
                        move |a: &mut (i64, i64), b: (i64, i64)| a.1 = agg.combine(a.1, b.1),
                    )
                    .unkey()
                    .map(|(k, v)| keyed_out(k, v.1)),
            ),
            KeyedForm::GroupBySum => erase(
                s.group_by_sum(keyer, |r: Rec| std::num::Wrapping(r.v))
                    .unkey()
                    .map(|(k, v)| keyed_out(k, v.0)),
            ),
            KeyedForm::GroupByCount => erase(
                s.group_by_count(keyer)
                    .unkey()
                    .map(|(k, v)| keyed_out(k, v as i64)),
            ),
            // min/max element compare by the value only; ties have equal `v`, hence equal output
            KeyedForm::GroupByMin => erase(
                s.group_by_min_element(keyer, |r: &Rec| r.v)
                    .unkey()
                    .map(|(k, r)| keyed_out(k, r.v)),
            ),
            KeyedForm::GroupByMax => erase(
                s.group_by_max_element(keyer, |r: &Rec| r.v)
                    .unkey()
                    .map(|(k, r)| keyed_out(k, r.v)),
            ),
            KeyedForm::GroupByAvg => erase(
                s.group_by_avg(keyer, |r: &Rec| r.v.rem_euclid(1 << 20) as f64)
                    .unkey()
                    .map(|(k, v): (i64, f64)| keyed_out(k, v.to_bits() as i64)),
            ),
            KeyedForm::KeyedRichMap => erase(
                s.group_by(keyer)
                    .rich_map({
                        let mut n = 0i64;
                        move |(_k, _r): (&i64, Rec)| {
                            n += 1;
                            n
                        }
                    })
                    .unkey()
                    .map(|(k, v)| keyed_out(k, v)),
            ),
        }
    }
}

pub fn stage_name(st: &Stage) -> &'static str {
    match st {
        Stage::Map(_) => "map",
        Stage::Filter(_) => "filter",
        Stage::FlatMap(_) => "flat_map",
        Stage::FilterMap(..) => "filter_map",
        Stage::RichIndex => "rich_map",
        Stage::Shuffle => "shuffle",
        Stage::Broadcast => "broadcast",
        Stage::Replicate(_) => "replication",
        Stage::Repartition(..) => "repartition_by",
        Stage::Batch(_) => "batch_mode",
        Stage::KeyedMap(..) => "keyed_map",
        Stage::KeyedAgg { .. } => "keyed_agg",
        Stage::GlobalAgg { .. } => "global_agg",
        Stage::CountWindow { .. } => "count_window",
        Stage::Fork { .. } => "fork",
        Stage::Diamond { .. } => "diamond",
        Stage::With { .. } => "with",
        Stage::Route { .. } => "route",
        Stage::Replay(_) => "replay",
        Stage::Iterate(_) => "iterate",
    }
}
