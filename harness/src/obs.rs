//! Per-job context: event log, link matcher, worker tracking, delay injection and the lock-step
//! gate. One job at a time per process (the engine's observer is process-global).
use std::collections::{HashMap, HashSet, VecDeque};
use std::sync::atomic::{AtomicBool, AtomicU64, Ordering};
use std::sync::{Arc, Condvar, Mutex};
use std::time::Duration;

use parking_lot::RwLock;
use renoir::verif::{ElemInfo, ElemKind, Endpoint, Loc, Observer};

use crate::rec::mix64;

#[derive(Clone, Debug)]
pub struct ProbeEv {
    pub seq: u64,
    pub probe: u32,
    pub loc: Loc,
    pub kind: ElemKind,
    pub ts: Option<i64>,
    pub v: i64,
    pub m: u64,
    /// metadata word the element carried when it arrived (before this probe stamped it)
    pub m_in: u64,
    /// number of FlushAndRestart this probe had seen before the element
    pub iter: u32,
    pub pad: usize,
    /// digest of the element as it will be seen on a link (only for stampers)
    pub digest: u64,
    /// loop state read while the element was observed (loop probes only)
    pub state: Option<(u32, i64)>,
}

#[derive(Clone, Debug)]
pub struct SendEv {
    pub seq: u64,
    pub from: Loc,
    pub ep: Endpoint,
    pub remote: bool,
    pub msg: Vec<ElemInfo>,
}

#[derive(Clone, Debug)]
pub struct RecvEv {
    pub seq: u64,
    pub ep: Endpoint,
    pub from: Loc,
    pub msg: Vec<ElemInfo>,
}

#[derive(Clone, Copy, Debug, PartialEq, Eq, PartialOrd, Ord)]
pub enum ParkOp {
    Send,
    Recv,
}

#[derive(Default)]
pub struct Workers {
    pub started: Vec<Loc>,
    pub ended: Vec<(Loc, bool)>,
    pub live: HashSet<Loc>,
    /// replicas currently inside a channel operation
    pub parked: HashMap<Loc, (ParkOp, Endpoint)>,
}

/// Delay injection: the delay of the n-th message on a link is a pure function of
/// (seed, link, n).
#[derive(Clone, Debug, Default, serde::Serialize, serde::Deserialize, PartialEq, Eq, Hash)]
pub struct DelaySpec {
    pub seed: u64,
    /// Slow selectors: (kind, a, b, max_us). kind 0: all links into block a coming from block b;
    /// kind 1: all sends of replica with global hash a; kind 2: every k-th message everywhere;
    /// kind 3: every message delivered to host a % 3.
    pub slow: Vec<(u8, u64, u64, u32)>,
}

impl DelaySpec {
    fn delay_us(&self, from: Loc, ep: Endpoint, n: u64) -> u32 {
        let mut best = 0u32;
        for &(kind, a, b, max_us) in &self.slow {
            let hit = match kind {
                0 => ep.to.block_id == a && from.block_id == b,
                1 => {
                    mix64(from.block_id * 1_000_003 + from.host_id * 1009 + from.replica_id) % 7
                        == a % 7
                }
                2 => n % (a.max(1)) == 0,
                // everything delivered to one host
                _ => ep.to.host_id == a % 3,
            };
            if hit {
                let h = mix64(
                    self.seed
                        ^ mix64(from.block_id << 40 | from.host_id << 20 | from.replica_id)
                        ^ mix64(ep.to.block_id << 40 | ep.to.host_id << 20 | ep.to.replica_id)
                        ^ n.wrapping_mul(0x9e37),
                );
                // one message out of 3 is delayed, so that relative orders vary
                if h % 3 == 0 {
                    best = best.max((h >> 8) as u32 % max_us.max(1));
                }
            }
        }
        best
    }
}

/// Lock-step gate: sends of the gated blocks are held until a permit is given.
#[derive(Default)]
pub struct GateState {
    pub gated_blocks: HashSet<u64>,
    pub permits: HashMap<Loc, usize>,
    /// gated senders currently waiting for a permit
    pub waiting: HashSet<Loc>,
    /// number of messages sent by gated senders and not yet received
    pub in_flight: i64,
    /// set when the job must be released unconditionally (shutdown)
    pub open: bool,
}

pub struct JobCtx {
    /// identity of the job: the token handed to its workers
    pub id: u64,
    pub seq: AtomicU64,
    /// bumped by every callback: progress signal
    pub events: AtomicU64,
    pub probes: Mutex<Vec<ProbeEv>>,
    pub record_links: AtomicBool,
    pub sends: Mutex<Vec<SendEv>>,
    pub recvs: Mutex<Vec<RecvEv>>,
    /// per link: batches sent and not yet received
    pub queues: Mutex<HashMap<(Loc, Endpoint), VecDeque<Vec<ElemInfo>>>>,
    pub link_counts: Mutex<HashMap<(Loc, Endpoint), (u64, bool, usize)>>,
    pub link_violations: Mutex<Vec<String>>,
    pub match_links: AtomicBool,
    pub workers: Mutex<Workers>,
    pub delays: Option<DelaySpec>,
    pub gate: Mutex<GateState>,
    pub gate_cv: Condvar,
    pub idle_ok: AtomicBool,
    /// messages of the panics raised on this job's threads (filled by the process panic hook)
    pub panics: Mutex<Vec<String>>,
    /// (host, what the collector returned) for hosts whose `execute_blocking` panicked: the sinks
    /// are read nevertheless, a failed run must not have published anything
    pub post_panic: Mutex<Vec<(usize, Box<dyn std::any::Any + Send>)>>,
}

impl JobCtx {
    pub fn new(delays: Option<DelaySpec>) -> Arc<JobCtx> {
        static NEXT_ID: AtomicU64 = AtomicU64::new(1);
        Arc::new(JobCtx {
            id: NEXT_ID.fetch_add(1, Ordering::SeqCst),
            seq: AtomicU64::new(0),
            events: AtomicU64::new(0),
            probes: Mutex::new(Vec::new()),
            record_links: AtomicBool::new(false),
            sends: Mutex::new(Vec::new()),
            recvs: Mutex::new(Vec::new()),
            queues: Mutex::new(HashMap::new()),
            link_counts: Mutex::new(HashMap::new()),
            link_violations: Mutex::new(Vec::new()),
            match_links: AtomicBool::new(false),
            workers: Mutex::new(Workers::default()),
            delays,
            gate: Mutex::new(GateState::default()),
            gate_cv: Condvar::new(),
            idle_ok: AtomicBool::new(false),
            panics: Mutex::new(Vec::new()),
            post_panic: Mutex::new(Vec::new()),
        })
    }

    pub fn next_seq(&self) -> u64 {
        self.seq.fetch_add(1, Ordering::SeqCst)
    }

    pub fn probe(&self, mut ev: ProbeEv) {
        ev.seq = self.next_seq();
        self.probes.lock().unwrap().push(ev);
    }

    pub fn take_probes(&self) -> Vec<ProbeEv> {
        let mut v = std::mem::take(&mut *self.probes.lock().unwrap());
        v.sort_by_key(|e| e.seq);
        v
    }

    // ---- lock-step gate -------------------------------------------------------------------
    pub fn gate_blocks(&self, blocks: impl IntoIterator<Item = u64>) {
        let mut g = self.gate.lock().unwrap();
        g.gated_blocks.extend(blocks);
    }
    /// Allow one more send of `loc`.
    pub fn gate_permit(&self, loc: Loc) {
        let mut g = self.gate.lock().unwrap();
        *g.permits.entry(loc).or_default() += 1;
        self.gate_cv.notify_all();
    }
    pub fn gate_open(&self) {
        let mut g = self.gate.lock().unwrap();
        g.open = true;
        self.gate_cv.notify_all();
    }
    /// Wait until `pred` holds on the gate state and the given replica is parked in a receive
    /// (or ended). Returns false on timeout.
    pub fn gate_wait<F: Fn(&GateState) -> bool>(&self, timeout: Duration, pred: F) -> bool {
        let deadline = std::time::Instant::now() + timeout;
        let mut g = self.gate.lock().unwrap();
        loop {
            if pred(&g) {
                return true;
            }
            let now = std::time::Instant::now();
            if now >= deadline {
                return false;
            }
            let (g2, _) = self
                .gate_cv
                .wait_timeout(g, (deadline - now).min(Duration::from_millis(20)))
                .unwrap();
            g = g2;
        }
    }
    pub fn is_parked_recv(&self, loc: Loc) -> bool {
        let w = self.workers.lock().unwrap();
        matches!(w.parked.get(&loc), Some((ParkOp::Recv, _))) || !w.live.contains(&loc)
    }
}

static CTX: RwLock<Option<Arc<JobCtx>>> = RwLock::new(None);

thread_local! {
    /// The context of the job the current worker thread belongs to: a straggler of a previous job
    /// (e.g. still unwinding after a crash) keeps reporting to its own job, not to the next one.
    static MY_CTX: std::cell::RefCell<Option<Arc<JobCtx>>> = const { std::cell::RefCell::new(None) };
}

/// The context of the job the current thread works for: worker threads get it through the token
/// handed out by `worker_spawn` on the host thread, host threads through `adopt`.
pub fn ctx() -> Option<Arc<JobCtx>> {
    MY_CTX.with(|c| c.borrow().clone())
}

/// Bind the current (host / harness) thread to a job.
pub fn adopt(c: Option<Arc<JobCtx>>) {
    MY_CTX.with(|m| *m.borrow_mut() = c);
}

fn by_token(token: u64) -> Option<Arc<JobCtx>> {
    let cur = CTX.read().clone();
    cur.filter(|c| c.id == token)
}

struct Obs;

impl Observer for Obs {
    fn before_send(&self, from: Loc, ep: Endpoint, remote: bool, msg: &[ElemInfo]) {
        let Some(c) = ctx() else { return };
        c.events.fetch_add(1, Ordering::Relaxed);
        // gate
        {
            let mut g = c.gate.lock().unwrap();
            if g.gated_blocks.contains(&from.block_id) && !g.open {
                g.waiting.insert(from);
                c.gate_cv.notify_all();
                {
                    let mut w = c.workers.lock().unwrap();
                    w.parked.insert(from, (ParkOp::Send, ep));
                }
                loop {
                    if g.open {
                        break;
                    }
                    let p = g.permits.entry(from).or_default();
                    if *p > 0 {
                        *p -= 1;
                        break;
                    }
                    g = c.gate_cv.wait(g).unwrap();
                }
                g.waiting.remove(&from);
                g.in_flight += 1;
                c.gate_cv.notify_all();
            }
        }
        let n = {
            let mut lc = c.link_counts.lock().unwrap();
            let e = lc.entry((from, ep)).or_insert((0, remote, 0));
            e.0 += 1;
            e.2 = e.2.max(msg.len());
            e.0
        };
        if c.match_links.load(Ordering::Relaxed) {
            c.queues
                .lock()
                .unwrap()
                .entry((from, ep))
                .or_default()
                .push_back(msg.to_vec());
        }
        if c.record_links.load(Ordering::Relaxed) {
            let seq = c.next_seq();
            c.sends.lock().unwrap().push(SendEv {
                seq,
                from,
                ep,
                remote,
                msg: msg.to_vec(),
            });
        }
        if let Some(d) = &c.delays {
            let us = d.delay_us(from, ep, n);
            if us > 0 {
                std::thread::sleep(Duration::from_micros(us as u64));
            }
        }
        c.workers
            .lock()
            .unwrap()
            .parked
            .insert(from, (ParkOp::Send, ep));
    }

    fn after_send(&self, from: Loc, _ep: Endpoint) {
        let Some(c) = ctx() else { return };
        c.events.fetch_add(1, Ordering::Relaxed);
        c.workers.lock().unwrap().parked.remove(&from);
    }

    fn before_recv(&self, ep: Endpoint) {
        let Some(c) = ctx() else { return };
        c.workers
            .lock()
            .unwrap()
            .parked
            .insert(ep.to, (ParkOp::Recv, ep));
        // wake up the lock-step driver: somebody may be waiting for this replica to park
        if !c.gate.lock().unwrap().gated_blocks.is_empty() {
            c.gate_cv.notify_all();
        }
    }

    fn after_recv(&self, ep: Endpoint, msg: Option<(Loc, &[ElemInfo])>) {
        let Some(c) = ctx() else { return };
        c.workers.lock().unwrap().parked.remove(&ep.to);
        let Some((from, msg)) = msg else { return };
        c.events.fetch_add(1, Ordering::Relaxed);
        {
            let mut g = c.gate.lock().unwrap();
            if g.gated_blocks.contains(&from.block_id) {
                g.in_flight -= 1;
                c.gate_cv.notify_all();
            }
        }
        if c.match_links.load(Ordering::Relaxed) {
            let mut q = c.queues.lock().unwrap();
            let head = q.entry((from, ep)).or_default().pop_front();
            drop(q);
            match head {
                None => c.link_violations.lock().unwrap().push(format!(
                    "received a batch that was never sent on this link: from={from:?} ep={ep:?} msg={msg:?}"
                )),
                Some(h) if h != msg => c.link_violations.lock().unwrap().push(format!(
                    "received batch differs from the oldest un-received batch of the link: from={from:?} ep={ep:?} sent={h:?} received={msg:?}"
                )),
                _ => {}
            }
        }
        if c.record_links.load(Ordering::Relaxed) {
            let seq = c.next_seq();
            c.recvs.lock().unwrap().push(RecvEv {
                seq,
                ep,
                from,
                msg: msg.to_vec(),
            });
        }
    }

    fn worker_spawn(&self, _loc: Loc) -> u64 {
        // called on the host thread, which `run_job` bound to its job
        ctx().map_or(0, |c| c.id)
    }

    fn worker_start(&self, loc: Loc, token: u64) {
        // a worker of an execution that is not the current job (a straggler that starts late)
        // stays unbound: its events are ignored
        let Some(c) = by_token(token) else { return };
        MY_CTX.with(|m| *m.borrow_mut() = Some(c.clone()));
        c.events.fetch_add(1, Ordering::Relaxed);
        let mut w = c.workers.lock().unwrap();
        w.started.push(loc);
        w.live.insert(loc);
    }

    fn worker_end(&self, loc: Loc, panicked: bool) {
        let Some(c) = ctx() else { return };
        c.events.fetch_add(1, Ordering::Relaxed);
        let mut w = c.workers.lock().unwrap();
        w.ended.push((loc, panicked));
        w.live.remove(&loc);
        w.parked.remove(&loc);
        drop(w);
        c.gate_cv.notify_all();
        MY_CTX.with(|m| *m.borrow_mut() = None);
    }
}

/// Install a fresh job context (and the engine observer).
pub fn install(c: Arc<JobCtx>) {
    *CTX.write() = Some(c);
    renoir::verif::set_observer(Some(Arc::new(Obs)));
}

pub fn uninstall() {
    renoir::verif::set_observer(None);
    *CTX.write() = None;
}

/// Called by the process-wide panic hook: remember the message in the job of the panicking thread.
pub fn record_panic(msg: String) {
    // network threads (mux / demux / listener) are not bound to a job: attribute their panics to the
    // job currently installed (diagnostic text only)
    if let Some(c) = ctx().or_else(|| CTX.read().clone()) {
        let mut p = c.panics.lock().unwrap();
        if p.len() < 12 {
            p.push(msg);
        }
    }
}

pub fn loc_str(l: Loc) -> String {
    format!("b{}h{}r{}", l.block_id, l.host_id, l.replica_id)
}
pub fn ep_str(e: Endpoint) -> String {
    format!("b{}->{}", e.prev_block_id, loc_str(e.to))
}
