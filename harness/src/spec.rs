//! Job specifications: a typed, serializable description of a pipeline over the deterministic
//! operator algebra. `build.rs` realises a spec on the real engine, `reference.rs` evaluates it
//! sequentially, `gen.rs` decodes a choice sequence into a spec.
use serde::{Deserialize, Serialize};

use crate::rec::{Agg, FilterFn, FlatFn, MapFn, Rec};

#[derive(Clone, Copy, Debug, PartialEq, Eq, Hash, Serialize, Deserialize)]
pub enum BatchSpec {
    Single,
    Fixed(u32),
    /// size, max delay in ms
    Adaptive(u32, u32),
}

impl BatchSpec {
    pub fn to_mode(self) -> renoir::BatchMode {
        match self {
            BatchSpec::Single => renoir::BatchMode::single(),
            BatchSpec::Fixed(n) => renoir::BatchMode::fixed(n.max(1) as usize),
            BatchSpec::Adaptive(n, ms) => renoir::BatchMode::adaptive(
                n.max(1) as usize,
                std::time::Duration::from_millis(ms.max(1) as u64),
            ),
        }
    }
    pub fn size(self) -> u32 {
        match self {
            BatchSpec::Single => 1,
            BatchSpec::Fixed(n) | BatchSpec::Adaptive(n, _) => n.max(1),
        }
    }
}

#[derive(Clone, Copy, Debug, PartialEq, Eq, Hash, Serialize, Deserialize)]
pub enum Repl {
    One,
    Limited(u8),
    Host,
    Unlimited,
}

impl Repl {
    pub fn to_engine(self) -> renoir::Replication {
        match self {
            Repl::One => renoir::Replication::One,
            Repl::Limited(n) => renoir::Replication::Limited(n.max(1) as u64),
            Repl::Host => renoir::Replication::Host,
            Repl::Unlimited => renoir::Replication::Unlimited,
        }
    }
    /// Number of replicas under a layout (independent model of the placement rule).
    pub fn replicas(self, cores: &[u64]) -> u64 {
        match self {
            Repl::One => 1,
            Repl::Host => cores.len() as u64,
            Repl::Unlimited => cores.iter().sum(),
            Repl::Limited(n) => {
                let mut left = n.max(1) as u64;
                let mut tot = 0;
                for &c in cores {
                    let k = left.min(c);
                    tot += k;
                    left -= k;
                }
                tot
            }
        }
    }
    pub fn intersect(self, o: Repl) -> Repl {
        match (self, o) {
            (Repl::One, _) | (_, Repl::One) => Repl::One,
            (Repl::Host, _) | (_, Repl::Host) => Repl::Host,
            (Repl::Limited(a), Repl::Limited(b)) => Repl::Limited(a.min(b)),
            (Repl::Limited(a), _) | (_, Repl::Limited(a)) => Repl::Limited(a),
            _ => Repl::Unlimited,
        }
    }
}

#[derive(Clone, Debug, PartialEq, Eq, Hash, Serialize, Deserialize)]
pub enum SourceSpec {
    /// `stream_iter`: single replica, in order.
    Iter(Vec<Rec>),
    /// `stream_par_iter(closure)`: element i is produced by replica `i % instances`.
    Par(Vec<Rec>),
    /// `stream_par_iter(a..b)` mapped to `Rec`.
    Range(i64, i64),
}

impl SourceSpec {
    pub fn items(&self) -> Vec<Rec> {
        match self {
            SourceSpec::Iter(v) | SourceSpec::Par(v) => v.clone(),
            SourceSpec::Range(a, b) => (*a..*b).map(Rec::new).collect(),
        }
    }
    pub fn len(&self) -> usize {
        match self {
            SourceSpec::Iter(v) | SourceSpec::Par(v) => v.len(),
            SourceSpec::Range(a, b) => (*b - *a).max(0) as usize,
        }
    }
}

#[derive(Clone, Copy, Debug, PartialEq, Eq, Hash, Serialize, Deserialize)]
pub enum KeyedForm {
    /// `group_by(k).fold(..)`
    GroupByThenFold,
    /// `group_by(k).reduce(..)`
    GroupByThenReduce,
    /// two-phase `group_by_fold`
    GroupByFold,
    /// two-phase `group_by_reduce`
    GroupByReduce,
    GroupBySum,
    GroupByCount,
    GroupByMin,
    GroupByMax,
    GroupByAvg,
    /// `group_by(k).rich_map(per-key counter)`: emits the running index of each element
    KeyedRichMap,
}

#[derive(Clone, Copy, Debug, PartialEq, Eq, Hash, Serialize, Deserialize)]
pub enum GlobalForm {
    Fold,
    Reduce,
    FoldAssoc,
    ReduceAssoc,
}

#[derive(Clone, Copy, Debug, PartialEq, Eq, Hash, Serialize, Deserialize)]
pub enum JoinKind {
    Inner,
    Left,
    Outer,
}

#[derive(Clone, Copy, Debug, PartialEq, Eq, Hash, Serialize, Deserialize)]
pub enum JoinAlgo {
    /// `Stream::join / left_join / outer_join`
    Shortcut,
    HashHash,
    HashSortMerge,
    /// broadcast right; no outer variant
    BcHash,
    BcSortMerge,
    /// `KeyedStream::join / join_outer` after `group_by` on both sides (inner and outer only)
    Keyed,
    /// `KeyedStream::join` of a two-phase aggregation (`group_by_count` of the left side) with the
    /// `group_by` of the right side, without reshuffling: both families must co-partition (inner)
    KeyedAfterAgg,
}

#[derive(Clone, Copy, Debug, PartialEq, Eq, Hash, Serialize, Deserialize)]
pub enum WinAggr {
    Collect,
    Fold,
    Sum,
    Count,
    Min,
    Max,
    First,
    Last,
}

#[derive(Clone, Copy, Debug, PartialEq, Eq, Hash, Serialize, Deserialize)]
pub enum SinkKind {
    CollectVec,
    CollectVecAll,
    CollectCount,
    CollectChannel,
    Collect,
    ForEach,
}

#[derive(Clone, Copy, Debug, PartialEq, Eq, Hash, Serialize, Deserialize)]
pub enum Combine {
    Merge,
    Zip,
    /// zip of two streams with arbitrary arrival order, every pair mapped to the constant 1: the
    /// result (min(|a|,|b|) ones per iteration) does not depend on the pairing
    ZipCount,
    Join(JoinKind, JoinAlgo, i64),
}

#[derive(Clone, Debug, PartialEq, Eq, Hash, Serialize, Deserialize)]
pub struct LoopSpec {
    /// iteration bound passed to the engine
    pub max: u8,
    /// the condition returns false once `round >= stop_after`
    pub stop_after: u8,
    /// the condition also returns false once `acc >= stop_acc`
    pub stop_acc: Option<i64>,
    pub init_acc: i64,
    pub body: Vec<Stage>,
}

#[derive(Clone, Debug, PartialEq, Eq, Hash, Serialize, Deserialize)]
pub enum Stage {
    Map(MapFn),
    Filter(FilterFn),
    FlatMap(FlatFn),
    /// `filter_map`: keep `ModNe` and apply map
    FilterMap(FilterFn, MapFn),
    /// `rich_map` with a running index (only on sequential, single replica segments): v -> 31*v + index
    RichIndex,
    Shuffle,
    Broadcast,
    Replicate(Repl),
    /// `repartition_by(replication, key % k)`: key based edge into a block with that replication
    Repartition(Repl, i64),
    Batch(BatchSpec),
    /// group_by(k) + keyed map + unkey
    KeyedMap(i64, MapFn),
    KeyedAgg {
        form: KeyedForm,
        k: i64,
        agg: Agg,
    },
    GlobalAgg {
        form: GlobalForm,
        agg: Agg,
    },
    CountWindow {
        k: i64,
        n: u8,
        s: u8,
        exact: bool,
        aggr: WinAggr,
    },
    /// `split(2)`: one branch runs `branch` and ends in `sink`, the other continues
    Fork {
        branch: Vec<Stage>,
        sink: SinkKind,
    },
    /// `split(2)`, two sub-pipelines, combined again
    Diamond {
        left: Vec<Stage>,
        right: Vec<Stage>,
        comb: Combine,
    },
    /// combine with a second pipeline that has its own source
    With {
        other: Box<Pipe>,
        comb: Combine,
    },
    /// `route()`: one route per predicate, each followed by its stages; all branches are merged
    /// again after a shuffle
    Route {
        preds: Vec<u8>,
        branches: Vec<Vec<Stage>>,
    },
    /// the stream becomes the final state (one element per execution of the loop)
    Replay(LoopSpec),
    /// the state stream goes to an own `collect_vec` sink, the stream continues with the output
    Iterate(LoopSpec),
}

#[derive(Clone, Debug, PartialEq, Eq, Hash, Serialize, Deserialize)]
pub struct Pipe {
    pub source: SourceSpec,
    pub stages: Vec<Stage>,
}

#[derive(Clone, Debug, PartialEq, Eq, Hash, Serialize, Deserialize)]
pub struct JobSpec {
    pub pipe: Pipe,
    pub sink: SinkKind,
}

/// How a program is deployed.
#[derive(Clone, Debug, PartialEq, Eq, Hash, Serialize, Deserialize)]
pub struct ConfigSpec {
    pub layout: crate::run::Layout,
    /// batch mode applied right after every source (inherited downstream)
    pub batch: Option<BatchSpec>,
    pub delays: Option<crate::obs::DelaySpec>,
}

pub fn count_stages(stages: &[Stage]) -> usize {
    stages
        .iter()
        .map(|s| {
            1 + match s {
                Stage::Fork { branch, .. } => count_stages(branch),
                Stage::Diamond { left, right, .. } => count_stages(left) + count_stages(right),
                Stage::With { other, .. } => count_stages(&other.stages),
                Stage::Route { branches, .. } => branches.iter().map(|b| count_stages(b)).sum(),
                Stage::Replay(l) | Stage::Iterate(l) => count_stages(&l.body),
                _ => 0,
            }
        })
        .sum()
}

/// Structural features used for the class histograms of the evidence files.
#[derive(Clone, Debug, Default, Serialize)]
pub struct Features {
    pub stages: usize,
    pub has_loop: bool,
    pub nested_loop: bool,
    pub has_iterate: bool,
    pub has_replay: bool,
    pub diamond: bool,
    pub multi_source: bool,
    pub multi_sink: bool,
    pub has_join: bool,
    pub has_agg: bool,
    pub has_window: bool,
    pub has_route: bool,
    pub has_broadcast: bool,
    pub has_zip: bool,
    pub repartitions: usize,
    pub side_input: bool,
    pub empty_source: bool,
    pub window_in_loop: bool,
    pub agg_in_loop: bool,
    pub join_in_loop: bool,
    /// an `iterate` whose body is chained in the Iterate block (see gen::amplifying_body)
    pub iterate_simple_body: bool,
}

pub fn features(job: &JobSpec) -> Features {
    let mut f = Features::default();
    fn walk(stages: &[Stage], depth: usize, f: &mut Features) {
        for s in stages {
            f.stages += 1;
            match s {
                Stage::Shuffle | Stage::Replicate(_) | Stage::Repartition(..) | Stage::KeyedMap(..) => f.repartitions += 1,
                Stage::Broadcast => {
                    f.has_broadcast = true;
                    f.repartitions += 1
                }
                Stage::KeyedAgg { .. } | Stage::GlobalAgg { .. } => {
                    f.agg_in_loop |= depth > 0;
                    f.has_agg = true;
                    f.repartitions += 1
                }
                Stage::CountWindow { .. } => {
                    f.window_in_loop |= depth > 0;
                    f.has_window = true;
                    f.repartitions += 1
                }
                Stage::Fork { branch, .. } => {
                    f.multi_sink = true;
                    walk(branch, depth, f)
                }
                Stage::Diamond { left, right, comb } => {
                    f.diamond = true;
                    comb_f(comb, f);
                    walk(left, depth, f);
                    walk(right, depth, f)
                }
                Stage::With { other, comb } => {
                    f.multi_source = true;
                    if depth > 0 {
                        f.side_input = true;
                    }
                    if other.source.len() == 0 {
                        f.empty_source = true;
                    }
                    comb_f(comb, f);
                    walk(&other.stages, 0, f)
                }
                Stage::Route { branches, .. } => {
                    f.has_route = true;
                    for b in branches {
                        walk(b, depth, f)
                    }
                }
                Stage::Replay(l) => {
                    f.has_loop = true;
                    f.has_replay = true;
                    if depth > 0 {
                        f.nested_loop = true
                    }
                    walk(&l.body, depth + 1, f)
                }
                Stage::Iterate(l) => {
                    f.iterate_simple_body |= !l.body.iter().any(|s| !matches!(s, Stage::Map(_) | Stage::Filter(_) | Stage::FilterMap(..) | Stage::FlatMap(_)));
                    f.has_loop = true;
                    f.has_iterate = true;
                    f.multi_sink = true;
                    if depth > 0 {
                        f.nested_loop = true
                    }
                    walk(&l.body, depth + 1, f)
                }
                _ => {}
            }
        }
    }
    fn comb_f(c: &Combine, f: &mut Features) {
        match c {
            Combine::Join(..) => {
                f.has_join = true;
                f.repartitions += 1
            }
            Combine::Zip | Combine::ZipCount => f.has_zip = true,
            Combine::Merge => {}
        }
    }
    if job.pipe.source.len() == 0 {
        f.empty_source = true;
    }
    walk(&job.pipe.stages, 0, &mut f);
    f
}
