//! vrun — entry point of the verification harness.
//!
//!   vrun check  <ID> --tier quick|thorough [--seed N]     parent: spawns shards, merges, writes evidence
//!   vrun shard  <ID> --tier T --seed N --shard I --of S --mode M --out FILE
//!   vrun replay <ID> <replay.json>
use std::path::PathBuf;
use std::process::{Command, Stdio};
use std::time::Instant;

use vcore::checks;
use vcore::framework::*;

fn arg<'a>(args: &'a [String], name: &str) -> Option<&'a str> {
    args.iter()
        .position(|a| a == name)
        .and_then(|i| args.get(i + 1))
        .map(|s| s.as_str())
}

fn verif_dir() -> PathBuf {
    std::env::var("VERIF_DIR")
        .map(PathBuf::from)
        .unwrap_or_else(|_| PathBuf::from("/verif"))
}

fn parse_tier(args: &[String]) -> Tier {
    let t = arg(args, "--tier")
        .map(|s| s.to_string())
        .or_else(|| std::env::var("VERIF_TIER").ok())
        .unwrap_or_else(|| "quick".into());
    if t == "thorough" {
        Tier::Thorough
    } else {
        Tier::Quick
    }
}

fn parse_seed(args: &[String]) -> u64 {
    arg(args, "--seed")
        .map(|s| s.to_string())
        .or_else(|| std::env::var("VERIF_SEED").ok())
        .and_then(|s| s.trim().parse::<i64>().ok())
        .map(|x| x as u64)
        .unwrap_or(20260923)
}

fn quiet_panics() {
    // engine worker panics (e.g. injected crashes) are expected in some checks: keep stderr short
    {
        std::panic::set_hook(Box::new(|info| {
            let msg = info.to_string();
            vcore::obs::record_panic(format!(
                "[{}] {}",
                std::thread::current().name().unwrap_or("?"),
                msg.replace('\n', " ")
            ));
            if std::env::var("VERIF_PANICS").is_ok() {
                eprintln!("[panic in {}] {msg}", std::thread::current().name().unwrap_or("?"));
            }
        }));
    }
}

fn main() {
    let args: Vec<String> = std::env::args().collect();
    if args.len() < 3 {
        eprintln!("usage: vrun check|shard|replay <ID> ...");
        std::process::exit(2);
    }
    let cmd = args[1].as_str();
    if cmd == "xhost" {
        // vrun xhost <ID> <spec file> <host index>: one host of a multi-process job
        quiet_panics();
        let code = vcore::engine::xhost_main(args.get(3).map(|s| s.as_str()).unwrap_or(""), args.get(4).and_then(|s| s.parse().ok()).unwrap_or(0));
        std::process::exit(code);
    }
    let id = args[2].clone();
    let Some(def) = checks::find(&id) else {
        eprintln!("unknown check {id}");
        std::process::exit(2);
    };
    let tier = parse_tier(&args);
    let seed = parse_seed(&args);
    match cmd {
        "shard" => {
            quiet_panics();
            let ctx = Ctx {
                id: id.clone(),
                tier,
                seed,
                shard: arg(&args, "--shard").and_then(|s| s.parse().ok()).unwrap_or(0),
                of: arg(&args, "--of").and_then(|s| s.parse().ok()).unwrap_or(1),
                verif_dir: verif_dir(),
            };
            let mode = arg(&args, "--mode").unwrap_or("main").to_string();
            let out = arg(&args, "--out").expect("--out").to_string();
            let report = (def.run)(&ctx, &mode);
            std::fs::write(&out, serde_json::to_string(&report).unwrap()).unwrap();
            // worker threads of a deadlocked job may still be alive: leave without joining them
            std::process::exit(0);
        }
        "replay" => {
            quiet_panics();
            let path = args.get(3).expect("replay file");
            let ctx = Ctx {
                id: id.clone(),
                tier,
                seed,
                shard: 0,
                of: 1,
                verif_dir: verif_dir(),
            };
            let raw = std::fs::read(path).expect("cannot read replay file");
            let v: serde_json::Value = match std::str::from_utf8(&raw).ok().and_then(|t| serde_json::from_str(t).ok()) {
                Some(v) => v,
                // a libFuzzer artifact: the raw bytes of the choice sequence
                None => serde_json::json!({ "fuzz_bytes": raw }),
            };
            match (def.replay)(&ctx, &v) {
                Ok(m) => {
                    println!("replay ok: {m}");
                    std::process::exit(0);
                }
                Err(m) => {
                    println!("{m}");
                    println!("VIOLATION property={id} replay={path}");
                    std::process::exit(1);
                }
            }
        }
        "check" => {
            let start = Instant::now();
            let vdir = verif_dir();
            let work = vdir.join(".work").join(format!("run-{}-{}", id, std::process::id()));
            let _ = std::fs::create_dir_all(&work);
            let exe = std::env::current_exe().unwrap();
            if std::env::var("VERIF_RUN_ID").is_err() {
                std::env::set_var("VERIF_RUN_ID", (std::process::id() % 12).to_string());
            }
            let modes = (def.modes)(tier);
            let mut children = Vec::new();
            let mut shard_no = 0u32;
            for (mode, n) in &modes {
                for i in 0..*n {
                    let out = work.join(format!("{mode}-{i}.json"));
                    let child = Command::new(&exe)
                        .args(["shard", &id, "--tier", tier.name(), "--seed", &seed.to_string()])
                        .args(["--shard", &shard_no.to_string(), "--of", &n.to_string()])
                        .args(["--mode", mode, "--out", out.to_str().unwrap()])
                        .stdin(Stdio::null())
                        .spawn()
                        .expect("cannot spawn shard");
                    children.push((mode.to_string(), i, out, child));
                    shard_no += 1;
                }
            }
            // regression tier: the committed replay files of this property
            let mut regressions = Vec::new();
            if let Ok(rd) = std::fs::read_dir(vdir.join("replays").join(&id)) {
                let mut files: Vec<_> = rd.filter_map(|e| e.ok()).map(|e| e.path()).collect();
                files.sort();
                for f in files.into_iter().filter(|f| f.extension().map_or(false, |e| e == "json")) {
                    let child = Command::new(&exe)
                        .args(["replay", &id, f.to_str().unwrap(), "--tier", tier.name()])
                        .stdin(Stdio::null())
                        .stdout(Stdio::piped())
                        .spawn()
                        .expect("cannot spawn replay");
                    regressions.push((f, child));
                }
            }
            let mut report = Report::default();
            let mut broken = Vec::new();
            let budget = std::time::Duration::from_secs(tier.pick(900, 4 * 3600));
            for (mode, i, out, mut child) in children {
                // wait with a global budget
                let status = loop {
                    match child.try_wait() {
                        Ok(Some(s)) => break Some(s),
                        Ok(None) => {
                            if start.elapsed() > budget {
                                let _ = child.kill();
                                let _ = child.wait();
                                break None;
                            }
                            std::thread::sleep(std::time::Duration::from_millis(50));
                        }
                        Err(_) => break None,
                    }
                };
                match std::fs::read_to_string(&out)
                    .ok()
                    .and_then(|s| serde_json::from_str::<Report>(&s).ok())
                {
                    Some(r) => report.merge(r),
                    None => broken.push(format!("shard {mode}-{i} produced no report (status {status:?})")),
                }
            }
            let n_regressions = regressions.len();
            for (f, child) in regressions {
                match child.wait_with_output() {
                    Ok(o) if o.status.code() == Some(0) => {}
                    Ok(o) if o.status.code() == Some(1) => {
                        let out = String::from_utf8_lossy(&o.stdout).to_string();
                        report.violations.push(Violation {
                            message: format!("regression replay failed: {}", out.lines().next().unwrap_or("")),
                            replay: f.to_string_lossy().to_string(),
                        });
                    }
                    other => broken.push(format!("replay of {} did not finish: {other:?}", f.display())),
                }
            }
            report.extra.insert("regression_replays".into(), serde_json::json!(n_regressions));
            if let Ok(p) = std::env::var("VERIF_FUZZ_SUMMARY") {
                if let Ok(txt) = std::fs::read_to_string(&p) {
                    if let Ok(v) = serde_json::from_str::<serde_json::Value>(&txt) {
                        if let Some(m) = v.as_object() {
                            for (target, r) in m {
                                if let Some(c) = r.get("crash").and_then(|c| c.as_str()).filter(|c| !c.is_empty()) {
                                    report.violations.push(Violation {
                                        message: format!("libFuzzer target {target} found a failing input"),
                                        replay: c.to_string(),
                                    });
                                }
                            }
                        }
                        report.extra.insert("libfuzzer_campaigns".into(), v);
                    }
                    let _ = std::fs::remove_file(&p);
                }
            }
            let _ = std::fs::remove_dir_all(&work);
            let ctx = Ctx {
                id: id.clone(),
                tier,
                seed,
                shard: 0,
                of: 1,
                verif_dir: vdir.clone(),
            };
            report.inconclusive.extend(broken.iter().cloned());
            let meta = EvidenceMeta {
                level: def.level,
                rule: def.rule.to_string(),
                assumptions: def.assumptions.iter().map(|s| s.to_string()).collect(),
            };
            write_evidence(&ctx, &report, &meta, start.elapsed().as_secs_f64());
            for (key, what) in &report.known {
                println!("KNOWN-FINDING: property={id} {key}: {what}");
            }
            println!(
                "{id} {}: {} cases, {} distinct non-trivial, {} violations, {} known-finding hits, {} excluded, {} discarded, {} inconclusive, {:.1}s",
                tier.name(),
                report.evaluations,
                report.nontrivial.len(),
                report.violations.len(),
                report.known_hits.values().sum::<u64>(),
                report.excluded,
                report.discarded,
                report.inconclusive.len(),
                start.elapsed().as_secs_f64()
            );
            if !report.violations.is_empty() {
                for v in &report.violations {
                    println!("  {}", v.message.lines().next().unwrap_or(""));
                    println!("VIOLATION property={id} replay={}", v.replay);
                }
                std::process::exit(1);
            }
            if !broken.is_empty() || report.evaluations == 0 {
                for b in &broken {
                    eprintln!("INCONCLUSIVE: {b}");
                }
                std::process::exit(2);
            }
            std::process::exit(0);
        }
        _ => {
            eprintln!("unknown command {cmd}");
            std::process::exit(2);
        }
    }
}
