//! Shared machinery of the checks: shard reports, the proptest-driven search loop, known findings,
//! replay files and evidence files.
use std::cell::RefCell;
use std::collections::{BTreeMap, BTreeSet};
use std::path::{Path, PathBuf};

use proptest::prelude::*;
use proptest::test_runner::{Config, RngSeed, TestCaseError, TestError, TestRunner};
use serde::{Deserialize, Serialize};
use serde_json::{json, Value};

#[derive(Clone, Copy, Debug, PartialEq, Eq, Serialize, Deserialize)]
pub enum Tier {
    Quick,
    Thorough,
}

impl Tier {
    pub fn name(self) -> &'static str {
        match self {
            Tier::Quick => "quick",
            Tier::Thorough => "thorough",
        }
    }
    pub fn pick<T>(self, q: T, t: T) -> T {
        match self {
            Tier::Quick => q,
            Tier::Thorough => t,
        }
    }
}

#[derive(Clone, Debug)]
pub struct Ctx {
    pub id: String,
    pub tier: Tier,
    pub seed: u64,
    pub shard: u32,
    pub of: u32,
    pub verif_dir: PathBuf,
}

impl Ctx {
    pub fn shard_seed(&self, stream: u64) -> u64 {
        crate::rec::mix64(self.seed ^ crate::rec::mix64((self.shard as u64) << 32 | stream))
    }
    pub fn cases(&self, quick_total: u32, thorough_total: u32) -> u32 {
        let tot = self.tier.pick(quick_total, thorough_total);
        (tot + self.of - 1) / self.of
    }
    pub fn replay_dir(&self) -> PathBuf {
        self.verif_dir.join("replays").join(&self.id)
    }
    pub fn found_dir(&self) -> PathBuf {
        self.verif_dir.join(".work").join("found").join(&self.id)
    }
}

#[derive(Clone, Debug, Serialize, Deserialize)]
pub struct Violation {
    pub message: String,
    pub replay: String,
}

#[derive(Clone, Debug, Default, Serialize, Deserialize)]
pub struct Report {
    pub evaluations: u64,
    /// fingerprints of distinct non-trivial cases
    pub nontrivial: BTreeSet<u64>,
    pub classes: BTreeMap<String, u64>,
    pub samples: Vec<Value>,
    pub violations: Vec<Violation>,
    /// key -> description of known findings that reproduced
    pub known: BTreeMap<String, String>,
    pub known_hits: BTreeMap<String, u64>,
    /// cases steered away from a known-finding shape by construction
    pub excluded: u64,
    pub discarded: u64,
    pub inconclusive: Vec<String>,
    pub side_observations: Vec<String>,
    pub extra: BTreeMap<String, Value>,
    pub fatal: bool,
}

impl Report {
    pub fn class(&mut self, name: &str) {
        *self.classes.entry(name.to_string()).or_default() += 1;
    }
    pub fn class_if(&mut self, cond: bool, name: &str) {
        if cond {
            self.class(name)
        }
    }
    pub fn sample(&mut self, v: Value) {
        if self.samples.len() < 4 {
            self.samples.push(v);
        }
    }
    pub fn merge(&mut self, o: Report) {
        self.evaluations += o.evaluations;
        self.nontrivial.extend(o.nontrivial);
        for (k, v) in o.classes {
            *self.classes.entry(k).or_default() += v;
        }
        for s in o.samples {
            if self.samples.len() < 5 {
                self.samples.push(s);
            }
        }
        self.violations.extend(o.violations);
        self.known.extend(o.known);
        for (k, v) in o.known_hits {
            *self.known_hits.entry(k).or_default() += v;
        }
        self.excluded += o.excluded;
        self.discarded += o.discarded;
        self.inconclusive.extend(o.inconclusive);
        for s in o.side_observations {
            if self.side_observations.len() < 20 {
                self.side_observations.push(s);
            }
        }
        for (k, v) in o.extra {
            match (self.extra.get_mut(&k), &v) {
                (Some(Value::Number(a)), Value::Number(b)) => {
                    let s = a.as_u64().unwrap_or(0) + b.as_u64().unwrap_or(0);
                    *a = s.into();
                }
                (None, _) => {
                    self.extra.insert(k, v);
                }
                _ => {}
            }
        }
        self.fatal |= o.fatal;
    }
}

pub fn fingerprint<T: std::hash::Hash>(t: &T) -> u64 {
    use std::hash::Hasher;
    let mut h = std::collections::hash_map::DefaultHasher::new();
    t.hash(&mut h);
    h.finish()
}

/// Outcome of one generated case.
pub enum Case {
    /// the property held; `nontrivial` carries the fingerprint when the case is non-trivial
    Pass { nontrivial: Option<u64> },
    /// the case could not be judged (e.g. reference overflow)
    Discard,
    /// a violation; `replay` is the self-describing case
    Fail { message: String, replay: Value },
    /// a violation matched by an open known finding
    Known { key: String, what: String },
    /// the process cannot continue (deadlocked job): report and stop this shard
    Fatal { message: String, replay: Value, known: Option<(String, String)> },
    Inconclusive(String),
}

pub fn write_replay(dir: &Path, id: &str, replay: &Value) -> String {
    let _ = std::fs::create_dir_all(dir);
    let fp = fingerprint(&replay.to_string());
    let path = dir.join(format!("{}-{:016x}.json", id, fp));
    let _ = std::fs::write(&path, serde_json::to_string_pretty(replay).unwrap());
    path.to_string_lossy().to_string()
}

/// Drive `f` with proptest-generated choice sequences. Counting stops at the first failure (the
/// closure keeps being called by proptest while shrinking).
pub fn search<F>(ctx: &Ctx, stream: u64, cases: u32, len: std::ops::Range<usize>, report: &mut Report, f: F)
where
    F: Fn(&[u16], &mut Report, bool) -> Case,
{
    if cases == 0 {
        return;
    }
    let config = Config {
        cases,
        failure_persistence: None,
        rng_seed: RngSeed::Fixed(ctx.shard_seed(stream)),
        max_shrink_iters: ctx.tier.pick(150, 400),
        max_shrink_time: 0,
        max_global_rejects: 1_000_000,
        ..Config::default()
    };
    let mut runner = TestRunner::new(config);
    let strategy = proptest::collection::vec(any::<u16>(), len);
    struct State<'r> {
        report: &'r mut Report,
        failed: bool,
        last_fail: Option<(String, Value)>,
        first_fail: Option<(String, Value)>,
        fatal: bool,
        shrink_start: Option<std::time::Instant>,
    }
    let st = RefCell::new(State {
        report,
        failed: false,
        last_fail: None,
        first_fail: None,
        fatal: false,
        shrink_start: None,
    });
    let shrink_budget = std::time::Duration::from_secs(ctx.tier.pick(45, 240));
    let result = runner.run(&strategy, |choices| {
        let mut s = st.borrow_mut();
        if s.fatal {
            return Ok(());
        }
        let shrinking = s.failed;
        if shrinking {
            // bounded shrinking time: beyond the budget every candidate "passes", so that
            // proptest settles on the smallest failing case found so far
            let t0 = *s.shrink_start.get_or_insert_with(std::time::Instant::now);
            if t0.elapsed() > shrink_budget {
                return Ok(());
            }
        }
        let mut scratch = Report::default();
        let attempts = if shrinking { 3 } else { 1 };
        let mut outcome = Case::Discard;
        for _ in 0..attempts {
            let rep: &mut Report = if shrinking { &mut scratch } else { &mut *s.report };
            outcome = f(&choices, rep, shrinking);
            if matches!(outcome, Case::Fail { .. } | Case::Fatal { .. }) {
                break;
            }
        }
        // A deadlock verdict rests on a quiescence window, i.e. on time, and a "host panicked"
        // verdict on whatever made a thread of the job panic in that one execution (both kinds
        // were seen once each as alarms that hundreds of re-executions never reproduced). Before
        // such a verdict is reported it must recur: the same case is executed up to 6 more times;
        // if the job then always ends well, the case is recorded as inconclusive (with its replay
        // file kept for inspection) instead of raising an alarm that nobody could reproduce.
        // Verdicts about results (a sink or a probe differing from the reference) are reported
        // at once.
        if !shrinking {
            if let Case::Fail { message, replay } = &outcome {
                if message.contains("deadlock: no engine event") || message.contains(" panicked: ") {
                    let mut recurred = None;
                    for _ in 0..6 {
                        let again = f(&choices, &mut scratch, true);
                        if matches!(again, Case::Fail { .. }) {
                            recurred = Some(again);
                            break;
                        }
                    }
                    match recurred {
                        Some(again) => outcome = again,
                        None => {
                            let dir = ctx.found_dir();
                            let _ = std::fs::create_dir_all(&dir);
                            let path = dir.join(format!("unconfirmed-{:016x}.json", fingerprint(&replay.to_string())));
                            let _ = std::fs::write(&path, serde_json::to_string_pretty(replay).unwrap_or_default());
                            *s.report.extra.entry("unconfirmed_verdicts".into()).or_insert(serde_json::json!(0u64)) =
                                serde_json::json!(s.report.extra.get("unconfirmed_verdicts").and_then(|v| v.as_u64()).unwrap_or(0) + 1);
                            outcome = Case::Inconclusive(format!(
                                "unconfirmed (the verdict did not recur in 6 re-executions; case kept in {}): {}",
                                path.display(),
                                message.lines().next().unwrap_or("")
                            ));
                        }
                    }
                }
            }
        }
        match outcome {
            Case::Pass { nontrivial } => {
                if !shrinking {
                    s.report.evaluations += 1;
                    if let Some(fp) = nontrivial {
                        s.report.nontrivial.insert(fp);
                    }
                }
                Ok(())
            }
            Case::Discard => {
                if !shrinking {
                    s.report.discarded += 1;
                }
                Ok(())
            }
            Case::Known { key, what } => {
                if !shrinking {
                    s.report.evaluations += 1;
                    s.report.known.insert(key.clone(), what);
                    *s.report.known_hits.entry(key).or_default() += 1;
                }
                Ok(())
            }
            Case::Inconclusive(m) => {
                if !shrinking {
                    s.report.inconclusive.push(m);
                }
                Ok(())
            }
            Case::Fail { message, replay } => {
                if !shrinking {
                    s.report.evaluations += 1;
                }
                s.failed = true;
                if s.first_fail.is_none() {
                    s.first_fail = Some((message.clone(), replay.clone()));
                }
                s.last_fail = Some((message.clone(), replay));
                Err(TestCaseError::fail(message))
            }
            Case::Fatal { message, replay, known } => {
                s.fatal = true;
                s.report.fatal = true;
                if !shrinking {
                    s.report.evaluations += 1;
                }
                match known {
                    Some((key, what)) => {
                        s.report.known.insert(key.clone(), what);
                        *s.report.known_hits.entry(key).or_default() += 1;
                        Ok(())
                    }
                    None => {
                        s.failed = true;
                        s.last_fail = Some((message.clone(), replay));
                        Err(TestCaseError::fail(message))
                    }
                }
            }
        }
    });
    let mut s = st.into_inner();
    match result {
        Ok(()) => {}
        Err(TestError::Fail(reason, value)) => {
            // `last_fail` is the last failing (i.e. the most shrunk) case; without one the closure
            // itself panicked (a harness error): keep the choice sequence and the reason
            // re-validate the shrunk case under the normal (not the shrinking) budgets: a candidate
            // that only "failed" because of the short windows used while shrinking is discarded in
            // favour of the first, fully judged failure
            let mut confirmed = None;
            if s.last_fail.is_some() {
                for _ in 0..3 {
                    let mut scratch = Report::default();
                    if let Case::Fail { message, replay } = f(&value, &mut scratch, false) {
                        confirmed = Some((message, replay));
                        break;
                    }
                }
            }
            if confirmed.is_none() && s.first_fail.is_some() {
                s.last_fail = s.first_fail.take();
            } else if confirmed.is_some() {
                s.last_fail = confirmed;
            }
            let (message, replay) = s.last_fail.take().unwrap_or((
                format!("the check itself failed: {reason}"),
                json!({"note": "panic inside the check, no case captured", "choices": value, "reason": reason.to_string()}),
            ));
            let path = write_replay(&ctx.found_dir(), &ctx.id, &replay);
            s.report.violations.push(Violation { message, replay: path });
        }
        Err(TestError::Abort(reason)) => {
            s.report.inconclusive.push(format!("proptest aborted: {reason}"));
        }
    }
}

// ---------------------------------------------------------------------------------------------

#[derive(Clone, Debug, Deserialize)]
pub struct KnownFinding {
    pub property: String,
    pub key: String,
    pub status: String,
    #[serde(default)]
    pub commit: Option<String>,
    pub what: String,
}

pub fn load_known(verif_dir: &Path) -> Vec<KnownFinding> {
    let p = verif_dir.join("known_findings.json");
    std::fs::read_to_string(p)
        .ok()
        .and_then(|s| serde_json::from_str::<Vec<KnownFinding>>(&s).ok())
        .unwrap_or_default()
}

pub fn is_open(known: &[KnownFinding], property: &str, key: &str) -> bool {
    known
        .iter()
        .any(|k| k.property == property && k.key == key && k.status == "open")
}

pub struct EvidenceMeta {
    pub level: &'static str,
    pub rule: String,
    pub assumptions: Vec<String>,
}

pub fn write_evidence(ctx: &Ctx, report: &Report, meta: &EvidenceMeta, wall_s: f64) {
    let dir = ctx.verif_dir.join("evidence");
    let _ = std::fs::create_dir_all(&dir);
    let mut coverage = json!({
        "evaluations": report.evaluations,
        "distinct_nontrivial": report.nontrivial.len(),
        "rule": meta.rule,
        "samples": report.samples,
        "classes": report.classes,
        "excluded_by_known_finding_shape": report.excluded,
        "discarded": report.discarded,
        "known_findings_reproduced": report.known_hits,
        "inconclusive": report.inconclusive.len(),
        "side_observations": report.side_observations,
    });
    for (k, v) in &report.extra {
        coverage[k] = v.clone();
    }
    let ev = json!({
        "property_id": ctx.id,
        "tier": ctx.tier.name(),
        "seed": ctx.seed,
        "level": meta.level,
        "coverage": coverage,
        "assumptions": meta.assumptions,
        "wall_s": wall_s,
        "violations": report.violations.len(),
    });
    let path = dir.join(format!("{}.json", ctx.id));
    let tmp = dir.join(format!("{}.json.tmp", ctx.id));
    std::fs::write(&tmp, serde_json::to_string_pretty(&ev).unwrap()).unwrap();
    std::fs::rename(tmp, path).unwrap();
}
