//! C16 — order on sequential paths (collect_vec equals the iterator chain as a sequence, for every
//! batch mode and transport) and reorder() (timestamp order, no loss, release rule).
use serde_json::{json, Value};

use crate::build::SinkOut;
use crate::engine::{run_spec, RunOpts, RunResult};
use crate::framework::*;
use crate::gen::{Chooser, Gen, Profile};
use crate::rec::{FilterFn, FlatFn, MapFn, Rec};
use crate::reference::evaluate;
use crate::run::{AddrSeed, HostOutcome};
use crate::spec::*;

use super::c01::watchdog;
use super::CheckDef;

fn gen_chain(ch: &mut Chooser) -> JobSpec {
    let n = match ch.weighted(&[1, 2, 4, 3, 2]) {
        0 => 0,
        1 => ch.range(1, 5) as usize,
        2 => ch.range(6, 80) as usize,
        3 => ch.range(81, 1200) as usize,
        _ => ch.range(1201, 5000) as usize,
    };
    // a quarter of the chains are slow and bursty: pauses longer than the adaptive delay between
    // bursts of a few elements, so that batches leave by timeout rather than by size
    let paced = ch.flag(1, 4);
    let n = if paced { ch.range(20, 90) as usize } else { n };
    let a = ch.next() as u64;
    let data: Vec<Rec> = (0..n).map(|i| Rec::new((crate::rec::mix64(a << 20 | i as u64) % 2001) as i64 - 1000)).collect();
    let mut stages = Vec::new();
    if paced {
        stages.push(Stage::Batch(BatchSpec::Adaptive([100, 1024][ch.below(2)], 1)));
        stages.push(Stage::Map(MapFn::Paced(ch.range(2, 4), [1500u32, 3000][ch.below(2)])));
    }
    let blocks = 1 + ch.below(6);
    let mut b = 1;
    let mut bound = n;
    while b <= blocks && !ch.exhausted() {
        match ch.weighted(&[4, 2, 2, 1, 3, 4, 2]) {
            0 => stages.push(Stage::Map(MapFn::Affine(ch.range(-3, 3), ch.range(-5, 5)))),
            1 => stages.push(Stage::Filter(FilterFn::ModNe(ch.range(2, 5), ch.range(0, 1)))),
            2 => {
                let f = FlatFn::Dup(ch.range(0, 3) as u8);
                if bound * 3 <= 40_000 {
                    bound *= f.max_fanout().max(1);
                    stages.push(Stage::FlatMap(f))
                }
            }
            3 => stages.push(Stage::FilterMap(FilterFn::Less(ch.range(-500, 900)), MapFn::Rem(1000))),
            4 => stages.push(Stage::RichIndex),
            5 => {
                // a new single-replica block: forward edge One -> One
                stages.push(Stage::Replicate(Repl::One));
                b += 1;
            }
            _ => stages.push(Stage::Batch(match ch.below(4) {
                0 => BatchSpec::Single,
                1 => BatchSpec::Fixed(ch.range(1, 7) as u32),
                2 => BatchSpec::Fixed([64, 1024][ch.below(2)]),
                _ => BatchSpec::Adaptive([3, 100][ch.below(2)], [1, 20][ch.below(2)]),
            })),
        }
    }
    JobSpec { pipe: Pipe { source: SourceSpec::Iter(data), stages }, sink: SinkKind::CollectVec }
}

fn judge(job: &JobSpec, cfg: &ConfigSpec, addr: AddrSeed, tier: Tier, shrinking: bool) -> Result<u64, String> {
    let reference = evaluate(job, &cfg.layout.cores(), 400_000).ok_or("reference overflow")?;
    let opts = RunOpts { watchdog: Some(watchdog(tier, shrinking)), ..RunOpts::default() };
    match run_spec(job, cfg, &opts, addr) {
        RunResult::Done(run) => {
            let mut got: Option<Vec<(i64, usize)>> = None;
            for (h, o) in run.hosts.iter().enumerate() {
                match o {
                    HostOutcome::Panicked(m) => return Err(format!("host {h} panicked: {m}")),
                    HostOutcome::Done(sinks) => {
                        if let Some(SinkOut::Items(v)) = sinks.first() {
                            if got.is_some() {
                                return Err("two hosts obtained the result".into());
                            }
                            got = Some(v.clone());
                        }
                    }
                }
            }
            let got = got.ok_or("no host obtained the result")?;
            let exp = &reference.ordered_sinks[0];
            if &got != exp {
                let pos = got.iter().zip(exp.iter()).position(|(a, b)| a != b).unwrap_or(got.len().min(exp.len()));
                return Err(format!(
                    "collect_vec differs from the iterator chain as a sequence: {} elements (expected {}), first difference at position {pos}: got {:?}, expected {:?}",
                    got.len(),
                    exp.len(),
                    got.get(pos),
                    exp.get(pos)
                ));
            }
            Ok(run.ctx.link_counts.lock().unwrap().values().map(|v| v.0).max().unwrap_or(0))
        }
        RunResult::Deadlock(d, _) => Err(format!("deadlock: {}", d.diagnosis)),
        RunResult::Inconclusive(m) => Err(format!("inconclusive: {m}")),
    }
}

fn run(ctx: &Ctx, mode: &str) -> Report {
    if mode == "reorder" || mode == "reorder_iter" {
        return super::c06::run_other(ctx, mode);
    }
    let mut report = Report::default();
    let counter = std::cell::Cell::new(0u64);
    let p = Profile::base();
    search(ctx, 1, ctx.cases(500, 12000), 20..120, &mut report, |choices, rep, shrinking| {
        let mut ch = Chooser::new(choices);
        let job = gen_chain(&mut ch);
        let data: Vec<u16> = (0..24).map(|_| ch.next()).collect();
        let cfg = Gen::new(&data, &p).config(false, false);
        let n = counter.get();
        counter.set(n + 1);
        match judge(&job, &cfg, AddrSeed { shard: ctx.shard, job: n }, ctx.tier, shrinking) {
            Ok(max_batches) => {
                let blocks = 1 + job.pipe.stages.iter().filter(|s| matches!(s, Stage::Replicate(_))).count();
                rep.class_if(cfg.layout.is_remote(), "config:multi_host");
                rep.class_if(blocks >= 3, "chain_of_3_or_more_blocks");
                rep.class_if(job.pipe.stages.iter().any(|s| matches!(s, Stage::Map(MapFn::Paced(..)))), "slow_bursty_stream");
                rep.class_if(max_batches >= 3, "link_with_3_or_more_batches");
                rep.class_if(job.pipe.stages.iter().any(|s| matches!(s, Stage::RichIndex)), "stateful_rich_map");
                rep.sample(json!({"job": {"source_len": job.pipe.source.len(), "stages": job.pipe.stages}, "config": cfg}));
                let nt = blocks >= 2 && max_batches >= 3;
                Case::Pass { nontrivial: if nt { Some(fingerprint(&(&job, &cfg))) } else { None } }
            }
            Err(message) => Case::Fail { message, replay: json!({"property": "C16", "job": job, "configs": [cfg]}) },
        }
    });
    report
}

fn replay(ctx: &Ctx, v: &Value) -> Result<String, String> {
    if v.get("tsjob").is_some() {
        return super::c06::replay_ts(ctx, v);
    }
    let job: JobSpec = serde_json::from_value(v["job"].clone()).map_err(|e| e.to_string())?;
    let cfgs: Vec<ConfigSpec> = serde_json::from_value(v["configs"].clone()).map_err(|e| e.to_string())?;
    for rep in 0..10 {
        for cfg in &cfgs {
            judge(&job, cfg, AddrSeed { shard: 216, job: rep }, ctx.tier, false)?;
        }
    }
    Ok("10 runs in order".into())
}

pub fn def() -> CheckDef {
    CheckDef {
        id: "C16",
        level: "exploration",
        rule: "(a) chains of 1-6 single-replica blocks (stream_iter, replication(One) edges, map, filter, flat_map, filter_map, stateful rich_map) x every batch mode x 0-5000 elements (a quarter of the chains are slow and bursty: 20-90 elements, adaptive batching with a 1 ms delay, a map that pauses 1.5-3 ms before every 2nd-4th element) x local and multi-host layouts: collect_vec must equal the corresponding iterator chain as a sequence; (b) timestamped jobs with reorder(): per replica and iteration the output is a permutation of the input with non-decreasing timestamps, and an element with timestamp t leaves only after the input showed a watermark >= t or the end of the iteration (same-thread probe order); a third mode runs reorder in chains of single-replica blocks fed by ONE scripted source replica over 1-3 iterations (timestamps restart in every iteration); non-trivial = (a) >= 2 blocks and a link with >= 3 batches, (b) >= 3 released elements checked against the release rule; distinct = hash of (job, configuration)",
        assumptions: &["the release rule is checked with probes immediately before and after reorder() in the same block"],
        modes: |t| vec![("chains", t.pick(8, 12)), ("reorder", t.pick(4, 6)), ("reorder_iter", t.pick(3, 4))],
        run,
        replay,
    }
}
