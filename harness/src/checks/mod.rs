//! One module per property (or per group of properties sharing an engine).
use serde_json::Value;

use crate::framework::{Ctx, Report, Tier};

pub mod c01;
pub mod c06;
pub mod c12;
pub mod c13;
pub mod c14;
pub mod c15;
pub mod c16;
pub mod c17;
pub mod c18;
pub mod c19;
pub mod c20;
pub mod jobs;

pub struct CheckDef {
    pub id: &'static str,
    pub level: &'static str,
    pub rule: &'static str,
    pub assumptions: &'static [&'static str],
    /// modes to run: (mode name, number of shards)
    pub modes: fn(Tier) -> Vec<(&'static str, u32)>,
    pub run: fn(&Ctx, &str) -> Report,
    /// re-execute a replay file; Err = the violation reproduces
    pub replay: fn(&Ctx, &Value) -> Result<String, String>,
}

pub fn all() -> Vec<CheckDef> {
    let mut v = vec![c01::def()];
    v.extend(jobs::defs());
    v.push(c06::def());
    v.push(c12::def());
    v.push(c13::def());
    v.push(c14::def());
    v.push(c15::def());
    v.push(c16::def());
    v.push(c17::def());
    v.push(c18::def());
    v.push(c19::def());
    v.push(c20::def());
    v
}

pub fn find(id: &str) -> Option<CheckDef> {
    all().into_iter().find(|c| c.id == id)
}
