//! C17 — watermark progress at a block input, decided with a lock-step gate: the harness owns the
//! order in which the messages of 1-5 producer replicas arrive at one consumer replica and
//! compares what the consumer's operators observe with a reference model of the frontier.
use std::sync::Arc;
use std::time::Duration;

use renoir::verif::{ElemKind, Loc};
use renoir::Replication;
use serde_json::{json, Value};

use crate::dynop::erase;
use crate::framework::*;
use crate::gen::Chooser;
use crate::obs::{JobCtx, ProbeEv};
use crate::probe::probe;
use crate::rec::Rec;
use crate::run::{run_job, AddrSeed, BuildFn, JobOutcome, Layout, Watchdog};
use crate::spec::{BatchSpec, Repl};
use crate::ts::*;

use super::CheckDef;

#[derive(Clone, Debug, serde::Serialize, serde::Deserialize, Hash)]
pub struct LockCase {
    pub source: TsSource,
    /// producer index of every released message, in arrival order
    pub order: Vec<usize>,
}

/// The messages a producer sends: its script cut at every FlushBatch, the FlushAndRestart riding on
/// the last segment, then [Terminate].
fn messages(script: &[Sx]) -> Vec<Vec<Sx2>> {
    let mut out = Vec::new();
    let mut cur = Vec::new();
    for x in script {
        match x {
            Sx::FlushBatch => {
                if !cur.is_empty() {
                    out.push(std::mem::take(&mut cur));
                }
            }
            Sx::Ts(v, t) => cur.push(Sx2::Ts(*v, *t)),
            Sx::Wm(w) => cur.push(Sx2::Wm(*w)),
        }
    }
    cur.push(Sx2::Flush);
    out.push(cur);
    out.push(vec![Sx2::Terminate]);
    out
}

#[derive(Clone, Debug, PartialEq)]
enum Sx2 {
    Ts(i64, i64),
    Wm(i64),
    Flush,
    Terminate,
}

pub fn decode(choices: &[u16]) -> LockCase {
    let mut ch = Chooser::new(choices);
    let mut next_id = 0;
    let mut source = gen_source(&mut ch, &ScriptOpts { max_replicas: 5, max_iterations: 1, max_len: 24, non_negative: false, styles: [10, 0, 1, 5], min_len: 6, wm_weight: 5 }, &mut next_id);
    let n = source.scripts.len();
    source.repl = Repl::Limited(n as u8);
    // arrival order: repeatedly pick a producer that still has messages
    let mut left: Vec<usize> = source.scripts.iter().map(|s| messages(&s[0]).len()).collect();
    let mut order = Vec::new();
    while left.iter().any(|l| *l > 0) {
        // a uniformly random merge of the producers' message sequences (a producer with few
        // messages, e.g. one that ends early, lands anywhere), with bursts that make one producer
        // run ahead of the others
        let w: Vec<u32> = left.iter().map(|l| *l as u32).collect();
        let p = ch.weighted(&w);
        let burst = 1 + ch.below(3);
        for _ in 0..burst.min(left[p]) {
            order.push(p);
            left[p] -= 1;
        }
    }
    LockCase { source, order }
}

pub struct LockRun {
    pub probes: Vec<ProbeEv>,
}

pub fn run_lockstep(c: &LockCase, addr: AddrSeed) -> Result<LockRun, String> {
    let n = c.source.scripts.len();
    let ctx = JobCtx::new(None);
    ctx.gate_blocks([0u64]);
    let src = c.source.clone();
    let build: BuildFn<()> = Arc::new(move |env, _| {
        let mut b = TsBuilder::new(env, Some(BatchSpec::Fixed(100_000)));
        let s = b.source(&src);
        let s = erase(s.replication(Replication::One));
        let s = erase(probe(s, 100, true, false, None));
        s.for_each(|_| {});
        Box::new(|| ())
    });
    let layout = Layout::Local(n as u64);
    let ctx2 = ctx.clone();
    let order = c.order.clone();
    // the driver releases the messages in the generated order
    let driver = std::thread::spawn(move || -> Result<(), String> {
        let consumer = Loc { block_id: 1, host_id: 0, replica_id: 0 };
        for (step, p) in order.iter().enumerate() {
            let loc = Loc { block_id: 0, host_id: 0, replica_id: *p as u64 };
            if !ctx2.gate_wait(Duration::from_secs(20), |g| g.waiting.contains(&loc) || g.open) {
                ctx2.gate_open();
                return Err(format!("step {step}: producer {p} never reached its next send"));
            }
            ctx2.gate_permit(loc);
            // wait until the message has been received and the consumer waits for the next one
            let ok = {
                let deadline = std::time::Instant::now() + Duration::from_secs(20);
                loop {
                    let drained = ctx2.gate_wait(Duration::from_millis(5), |g| g.in_flight == 0 && !g.permits.get(&loc).map_or(false, |x| *x > 0));
                    if drained && ctx2.is_parked_recv(consumer) {
                        break true;
                    }
                    if std::time::Instant::now() > deadline {
                        break false;
                    }
                }
            };
            if !ok {
                ctx2.gate_open();
                return Err(format!("step {step}: the consumer did not drain the message of producer {p}"));
            }
        }
        ctx2.gate_open();
        Ok(())
    });
    let res = run_job(&layout, addr, ctx.clone(), build, Watchdog { quiescence: Duration::from_secs(30), budget: Duration::from_secs(90) });
    ctx.gate_open();
    let d = driver.join().map_err(|_| "lock-step driver panicked".to_string())?;
    match res {
        JobOutcome::Finished(_) => {}
        JobOutcome::Deadlock(d) => return Err(format!("deadlock under lock-step: {}", d.diagnosis)),
        JobOutcome::Inconclusive(m) => return Err(m),
    }
    d?;
    let probes: Vec<ProbeEv> = ctx.take_probes().into_iter().filter(|p| p.probe == 100).collect();
    Ok(LockRun { probes })
}

/// Frontier reference model and the progress / safety predicates. Err = (clause, cause, message).
pub fn check(c: &LockCase, run: &LockRun) -> Result<(u32, bool), (String, String, String)> {
    let n = c.source.scripts.len();
    let msgs: Vec<Vec<Vec<Sx2>>> = c.source.scripts.iter().map(|s| messages(&s[0])).collect();
    let mut next = vec![0usize; n];
    // delivery order, flattened: (producer, element)
    let mut delivered: Vec<(usize, Sx2)> = Vec::new();
    for p in &c.order {
        for e in &msgs[*p][next[*p]] {
            delivered.push((*p, e.clone()));
        }
        next[*p] += 1;
    }
    let mut wm: Vec<Option<i64>> = vec![None; n];
    let mut ended = vec![false; n];
    let frontier = |wm: &Vec<Option<i64>>, ended: &Vec<bool>| -> Option<i64> {
        let mut m: Option<i64> = None;
        for i in 0..wm.len() {
            if ended[i] {
                continue;
            }
            match wm[i] {
                None => return None,
                Some(w) => m = Some(m.map_or(w, |x: i64| x.min(w))),
            }
        }
        m
    };
    let mut m_cur: Option<i64> = None;
    let mut m_cause = "watermark";
    // values the frontier took since the last data element the consumer emitted
    let mut m_window: Vec<i64> = Vec::new();
    let mut last_obs: Option<i64> = None;
    let mut increases = 0u32;
    let mut increase_by_end = false;
    let mut di = 0usize;
    let obs: Vec<&ProbeEv> = run.probes.iter().filter(|e| matches!(e.kind, ElemKind::Timestamped | ElemKind::Watermark)).collect();
    let fail = |clause: &str, cause: &str, m: String| Err((clause.to_string(), cause.to_string(), m));
    // advance the model over the control elements delivered before the next data element
    macro_rules! advance_to_next_data {
        () => {
            while di < delivered.len() {
                let (p, e) = &delivered[di];
                match e {
                    Sx2::Ts(..) => break,
                    Sx2::Wm(w) => {
                        wm[*p] = Some(wm[*p].map_or(*w, |x| x.max(*w)));
                    }
                    Sx2::Flush => ended[*p] = true,
                    Sx2::Terminate => {}
                }
                let m = frontier(&wm, &ended);
                if ended.iter().all(|x| *x) {
                    // end of the iteration: nothing more is required
                } else if let Some(m) = m {
                    if m_cur.map_or(true, |c| m > c) {
                        m_cur = Some(m);
                        m_cause = if matches!(e, Sx2::Flush) { "flush_and_restart" } else { "watermark" };
                        m_window.push(m);
                        increases += 1;
                        if matches!(e, Sx2::Flush) {
                            increase_by_end = true;
                        }
                    }
                }
                di += 1;
            }
        };
    }
    let mut oi = 0;
    loop {
        // the consumer may emit watermarks for any frontier value reached before the next data element
        advance_to_next_data!();
        while oi < obs.len() && obs[oi].kind == ElemKind::Watermark {
            let w = obs[oi].ts.unwrap();
            if !m_window.contains(&w) {
                return fail("safety", m_cause, format!("the consumer observed Watermark({w}); the minimum over the active producers took the values {m_window:?} since the last element (current {m_cur:?})"));
            }
            if last_obs.map_or(false, |l| w <= l) {
                return fail("safety", m_cause, format!("Watermark({w}) observed after Watermark({last_obs:?})"));
            }
            last_obs = Some(w);
            oi += 1;
        }
        if di >= delivered.len() {
            break;
        }
        // next delivered data element: the consumer must observe it next, after the current frontier
        let (p, e) = &delivered[di];
        let Sx2::Ts(v, ts) = e else { unreachable!() };
        if oi >= obs.len() {
            return fail("lost", m_cause, format!("element {v} (timestamp {ts}) of producer {p} was delivered but never observed"));
        }
        let o = obs[oi];
        if o.v != *v {
            return fail("order", m_cause, format!("the consumer observed element {} where element {v} of producer {p} was delivered next", o.v));
        }
        if let Some(m) = m_cur {
            if last_obs != Some(m) {
                return fail(
                    "progress",
                    m_cause,
                    format!(
                        "element {v} (timestamp {ts}) observed while the last watermark seen by the operators is {last_obs:?}: the minimum over the active producers had already increased to {m} (caused by a {m_cause} of a producer)"
                    ),
                );
            }
        }
        m_window.clear();
        if let Some(m) = m_cur {
            m_window.push(m);
        }
        oi += 1;
        di += 1;
    }
    if oi < obs.len() {
        return fail("safety", m_cause, format!("{} unexpected trailing events at the consumer", obs.len() - oi));
    }
    Ok((increases, increase_by_end))
}

fn run(ctx: &Ctx, mode: &str) -> Report {
    if mode == "loop" {
        // progress (and safety) across the rounds of a replay loop: the timestamped-job engine
        return super::c06::run_other(ctx, "loop");
    }
    let mut report = Report::default();
    let known = load_known(&ctx.verif_dir);
    let f6_open = is_open(&known, "C17", "frontier-increase-by-ended-replica-not-forwarded");
    let counter = std::cell::Cell::new(0u64);
    search(ctx, 1, ctx.cases(8000, 160_000), 40..260, &mut report, |choices, rep, _| {
        let c = decode(choices);
        let n = counter.get();
        counter.set(n + 1);
        let run = match run_lockstep(&c, AddrSeed { shard: ctx.shard, job: n }) {
            Ok(r) => r,
            Err(message) => return Case::Fail { message, replay: json!({"property": "C17", "lockstep": c}) },
        };
        match check(&c, &run) {
            Ok((increases, by_end)) => {
                rep.class("lockstep_histories");
                rep.class_if(c.source.scripts.len() >= 2, "producers>=2");
                rep.class_if(by_end, "frontier_increase_caused_by_an_ending_producer");
                rep.class_if(c.source.scripts.iter().any(|s| s[0].iter().all(|x| !matches!(x, Sx::Wm(_)))), "producer_without_watermarks");
                if rep.samples.len() < 2 {
                    rep.sample(json!(c));
                }
                let nt = increases >= 2 && c.source.scripts.len() >= 2 && by_end;
                Case::Pass { nontrivial: if nt { Some(fingerprint(&c)) } else { None } }
            }
            Err((clause, cause, message)) => {
                if f6_open && clause == "progress" && cause == "flush_and_restart" {
                    return Case::Known { key: "frontier-increase-by-ended-replica-not-forwarded".into(), what: message };
                }
                Case::Fail { message: format!("[{clause}] {message}"), replay: json!({"property": "C17", "lockstep": c}) }
            }
        }
    });
    report
}

fn replay(_ctx: &Ctx, v: &Value) -> Result<String, String> {
    if v.get("tsjob").is_some() {
        return super::c06::replay_ts(_ctx, v);
    }
    let c: LockCase = serde_json::from_value(v["lockstep"].clone()).map_err(|e| e.to_string())?;
    let run = run_lockstep(&c, AddrSeed { shard: 217, job: 0 })?;
    check(&c, &run).map(|_| "the consumer observed the frontier".to_string()).map_err(|(c, _, m)| format!("[{c}] {m}"))
}

pub fn def() -> CheckDef {
    let _: Option<Rec> = None;
    CheckDef {
        id: "C17",
        level: "exploration",
        rule: "lock-step histories: 1-5 scripted producer replicas (scripts respect the watermark contract; replicas without watermarks, without data, ending early) send one message per scripted flush over a forward edge to ONE consumer replica; through the observer hook the harness parks every producer before each send and releases the messages in a generated interleaving (bursts let a producer run ahead), waiting until the consumer has drained each one, so the arrival order at the block input is exactly the generated one; oracle = reference model of the frontier: m = minimum, over the producers that have not ended the iteration, of their latest watermark; before every element the operators observe, the last watermark they observed must equal m (progress), and every observed watermark is a value m took since the previous element, strictly increasing (safety); elements are observed in arrival order; non-trivial = m increased >= 2 times with >= 2 producers, at least once because a producer ended; distinct = hash of (scripts, interleaving); a second mode (loop, shared with C06) runs timestamped replay(2-4 rounds) bodies over multi-replica scripted sources: when every source replica of the deployment has a script with watermarks, every replica behind the first repartitioning of the body must observe at least one watermark in EVERY round (the frontier becomes defined whatever the interleaving), together with the safety clause",
        assumptions: &["one consumer replica, forward edge, local transport (the frontier logic is the same for every edge kind and transport)"],
        modes: |t| vec![("main", t.pick(8, 12)), ("loop", t.pick(4, 6))],
        run,
        replay,
    }
}
