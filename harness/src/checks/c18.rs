//! C18 — batching never withholds data. A timing harness around a `ChannelSource`: elements are
//! handed to the source one by one with pauses, the channel is then kept OPEN AND IDLE, and every
//! element must still reach `collect_channel`. The verdict "withheld" uses a seconds-scale cap, two
//! orders of magnitude above scheduling noise; latencies are measured and reported.
use std::sync::{Arc, Mutex};
use std::time::{Duration, Instant};

use renoir::operator::source::ChannelSource;
use renoir::{BatchMode, Replication};
use serde_json::{json, Value};

use crate::dynop::{erase, DStream};
use crate::framework::*;
use crate::gen::Chooser;
use crate::obs::JobCtx;
use crate::run::{run_job, AddrSeed, BuildFn, HostOutcome, JobOutcome, Layout, Watchdog};

use super::CheckDef;

#[derive(Clone, Debug, serde::Serialize, serde::Deserialize, Hash)]
pub enum St {
    Map,
    /// a map that sleeps (microseconds per element): creates back-pressure for bursts
    SlowMap(u32),
    Shuffle,
    GroupBy(i64),
    ReplicateOne,
    /// merge with a finite stream of n elements (values 1_000_000 + i) that ends at once; the
    /// flag puts the finite stream on the left of the merge
    MergeFinite(u32, bool),
}

#[derive(Clone, Debug, serde::Serialize, serde::Deserialize, Hash)]
pub struct Case18 {
    pub layout: Layout,
    /// Some((size, delay ms)) = adaptive; None variants: 0 = single, n = fixed(n)
    pub adaptive: Option<(u32, u32)>,
    pub fixed: u32,
    pub stages: Vec<St>,
    /// pause before each input in ms
    pub pauses: Vec<u32>,
    /// after the paced inputs: a burst of this many inputs sent 100 us apart
    #[serde(default)]
    pub burst: u32,
}

pub fn decode(choices: &[u16]) -> Case18 {
    let mut ch = Chooser::new(choices);
    let layout = match ch.below(3) {
        0 => Layout::Local(1 + ch.below(6) as u64),
        1 => Layout::Local(2 + ch.below(3) as u64),
        _ => Layout::Hosts((0..2 + ch.below(2)).map(|_| 1 + ch.below(3) as u64).collect()),
    };
    let adaptive = if ch.flag(3, 4) {
        Some(([1u32, 4, 64, 1024][ch.below(4)], [5u32, 10, 20, 50][ch.below(4)]))
    } else {
        None
    };
    let fixed = [0u32, 1, 3, 7][ch.below(4)];
    let depth = 1 + ch.below(4);
    let mut stages = Vec::new();
    for _ in 0..depth {
        if ch.flag(1, 3) {
            stages.push(St::Map);
        }
        stages.push(match ch.below(3) {
            0 => St::Shuffle,
            1 => St::GroupBy([1, 3, 16][ch.below(3)]),
            _ => St::ReplicateOne,
        });
    }
    let burst = if ch.flag(1, 3) {
        // a burst faster than the next block, then silence
        let pos = ch.below(stages.len() + 1);
        stages.insert(pos, St::SlowMap([500u32, 2000][ch.below(2)]));
        [50u32, 200, 400][ch.below(3)]
    } else {
        0
    };
    if ch.flag(1, 3) {
        // a two-input block one of whose inputs has already ended while the other stays open
        let pos = ch.below(stages.len() + 1);
        stages.insert(pos, St::MergeFinite(ch.range(0, 5) as u32, ch.flag(1, 2)));
    }
    let n = 1 + ch.below(12);
    let d = adaptive.map_or(10, |a| a.1);
    let pauses = (0..n)
        .map(|_| match ch.weighted(&[4, 2, 2]) {
            0 => 0,
            1 => d / 2,
            _ => d * 2,
        })
        .collect();
    Case18 { layout, adaptive, fixed, stages, pauses, burst }
}

#[derive(Debug, Default, Clone)]
pub struct Outcome {
    /// per element: latency in ms from `send` to arrival at the sink (None = not arrived while idle)
    pub latencies_ms: Vec<Option<f64>>,
    pub arrived_after_close: usize,
    pub total: usize,
    pub disconnected: bool,
}

fn boundaries(c: &Case18) -> usize {
    // every repartitioning stage is a block boundary, plus the one in front of collect_channel
    c.stages.iter().filter(|s| !matches!(s, St::Map | St::SlowMap(_))).count() + 1 // (a merge starts a new block too)
}

pub fn cap(c: &Case18) -> Duration {
    let d = c.adaptive.map_or(0, |a| a.1) as u64;
    // time the slow stage needs to work through the burst, on top of the batching cap
    let work: u64 = c.stages.iter().map(|s| if let St::SlowMap(us) = s { (*us as u64 * c.burst as u64) / 1000 } else { 0 }).sum();
    Duration::from_millis((40 * boundaries(c) as u64 * d).max(3000) + 2 * work)
}

pub fn run_case(c: &Case18, addr: AddrSeed) -> Result<Outcome, String> {
    let ctx = JobCtx::new(None);
    ctx.idle_ok.store(true, std::sync::atomic::Ordering::Relaxed);
    let outcome: Arc<Mutex<Option<Outcome>>> = Arc::new(Mutex::new(None));
    let c2 = c.clone();
    let out2 = outcome.clone();
    let build: BuildFn<()> = Arc::new(move |env, host| {
        let (tx, src) = ChannelSource::<i64>::new(64);
        let mode = match c2.adaptive {
            Some((n, d)) => BatchMode::adaptive(n as usize, Duration::from_millis(d as u64)),
            None if c2.fixed == 0 => BatchMode::single(),
            None => BatchMode::fixed(c2.fixed as usize),
        };
        let mut s: DStream<i64> = erase(env.stream(src).batch_mode(mode));
        // replication of the current block: One (sources, replication(One)) or Unlimited
        let mut one = true;
        for st in &c2.stages {
            match st {
                St::Shuffle | St::GroupBy(_) => one = false,
                St::ReplicateOne => one = true,
                _ => {}
            }
            let was_one = match st {
                St::MergeFinite(..) => one,
                _ => true,
            };
            s = match st {
                St::Map => erase(s.map(|x: i64| x)),
                St::SlowMap(us) => {
                    let us = *us as u64;
                    erase(s.map(move |x: i64| {
                        std::thread::sleep(Duration::from_micros(us));
                        x
                    }))
                }
                St::Shuffle => erase(s.shuffle()),
                St::GroupBy(k) => {
                    let k = *k;
                    erase(s.group_by(move |x: &i64| x.rem_euclid(k)).map(|(_, x): (&i64, i64)| x).drop_key())
                }
                St::ReplicateOne => erase(s.replication(Replication::One)),
                St::MergeFinite(n, left) => {
                    let n = *n as i64;
                    let fin = erase(env.stream_iter((0..n).map(|i| 1_000_000 + i)).batch_mode(mode));
                    // both inputs of a merge must have the same replication
                    let fin = if was_one { fin } else { erase(fin.shuffle()) };
                    if *left {
                        erase(fin.merge(s))
                    } else {
                        erase(s.merge(fin))
                    }
                }
            };
        }
        let rx = s.collect_channel();
        if host != 0 {
            drop(tx);
            return Box::new(|| ());
        }
        let arrivals: Arc<Mutex<Vec<(i64, Instant)>>> = Arc::new(Mutex::new(Vec::new()));
        let done_rx = Arc::new(Mutex::new(false));
        {
            let arrivals = arrivals.clone();
            let done_rx = done_rx.clone();
            std::thread::spawn(move || {
                while let Ok(v) = rx.recv() {
                    arrivals.lock().unwrap().push((v, Instant::now()));
                }
                *done_rx.lock().unwrap() = true;
            });
        }
        let c3 = c2.clone();
        let out3 = out2.clone();
        let feeder = std::thread::spawn(move || {
            let mut sent: Vec<Instant> = Vec::new();
            for (i, p) in c3.pauses.iter().enumerate() {
                std::thread::sleep(Duration::from_millis(*p as u64));
                sent.push(Instant::now());
                if tx.send(i as i64).is_err() {
                    break;
                }
            }
            for j in 0..c3.burst as usize {
                std::thread::sleep(Duration::from_micros(100));
                sent.push(Instant::now());
                if tx.send((c3.pauses.len() + j) as i64).is_err() {
                    break;
                }
            }
            // the source stays open and idle: everything must arrive nevertheless
            let adaptive = c3.adaptive.is_some();
            let deadline = Instant::now() + if adaptive { cap(&c3) } else { Duration::from_millis(300) };
            loop {
                if arrivals.lock().unwrap().iter().filter(|a| a.0 < 1_000_000).count() >= sent.len() || Instant::now() > deadline {
                    break;
                }
                std::thread::sleep(Duration::from_millis(2));
            }
            let snapshot = arrivals.lock().unwrap().clone();
            let latencies_ms: Vec<Option<f64>> = (0..sent.len())
                .map(|i| {
                    snapshot
                        .iter()
                        .find(|a| a.0 == i as i64)
                        .map(|a| a.1.saturating_duration_since(sent[i]).as_secs_f64() * 1000.0)
                })
                .collect();
            drop(tx);
            // after the close every buffered element is delivered when the job ends
            let t0 = Instant::now();
            while !*done_rx.lock().unwrap() && t0.elapsed() < Duration::from_secs(20) {
                std::thread::sleep(Duration::from_millis(2));
            }
            let total = arrivals.lock().unwrap().len();
            *out3.lock().unwrap() = Some(Outcome {
                arrived_after_close: total - latencies_ms.iter().filter(|l| l.is_some()).count(),
                latencies_ms,
                total,
                disconnected: *done_rx.lock().unwrap(),
            });
        });
        Box::new(move || {
            let _ = feeder.join();
        })
    });
    let wd = Watchdog { quiescence: Duration::from_secs(30), budget: Duration::from_secs(120) };
    match run_job(&c.layout, addr, ctx, build, wd) {
        JobOutcome::Finished(hosts) => {
            for (h, o) in hosts.iter().enumerate() {
                if let HostOutcome::Panicked(m) = o {
                    return Err(format!("host {h} panicked: {m}"));
                }
            }
        }
        JobOutcome::Deadlock(d) => return Err(format!("deadlock: {}", d.diagnosis)),
        JobOutcome::Inconclusive(m) => return Err(format!("inconclusive: {m}")),
    }
    let o = outcome.lock().unwrap().clone();
    o.ok_or_else(|| "the feeder produced no outcome".to_string())
}

pub fn judge(c: &Case18, o: &Outcome) -> Result<(), String> {
    let n = c.pauses.len() + c.burst as usize;
    if c.adaptive.is_some() {
        let missing: Vec<usize> = o.latencies_ms.iter().enumerate().filter(|(_, l)| l.is_none()).map(|(i, _)| i).collect();
        if !missing.is_empty() {
            return Err(format!(
                "adaptive batching {:?}, {} block boundaries: elements {missing:?} of {n} had not reached the sink {:?} after the last input, while the source was open and idle (withheld)",
                c.adaptive,
                boundaries(c),
                cap(c)
            ));
        }
    }
    if !o.disconnected {
        return Err("the sink channel was still connected 20 s after the source was closed".into());
    }
    let finite: usize = c.stages.iter().map(|s| if let St::MergeFinite(k, _) = s { *k as usize } else { 0 }).sum();
    if o.total != n + finite {
        return Err(format!("{n} elements were handed to the source (and {finite} came from the finite input), {} reached the sink by the end of the job", o.total));
    }
    Ok(())
}

fn run(ctx: &Ctx, _mode: &str) -> Report {
    let mut report = Report::default();
    let counter = std::cell::Cell::new(0u64);
    let lat: std::cell::RefCell<Vec<f64>> = Default::default();
    search(ctx, 1, ctx.cases(240, 3000), 20..80, &mut report, |choices, rep, _| {
        let c = decode(choices);
        let n = counter.get();
        counter.set(n + 1);
        let replay = json!({"property": "C18", "case": c});
        let o = match run_case(&c, AddrSeed { shard: ctx.shard, job: n }) {
            Ok(o) => o,
            Err(message) => return Case::Fail { message, replay },
        };
        match judge(&c, &o) {
            Ok(()) => {
                rep.class_if(c.adaptive.is_some(), "adaptive");
                rep.class_if(c.adaptive.is_none(), "fixed_or_single(flushed_at_close)");
                rep.class_if(c.layout.is_remote(), "config:multi_host");
                rep.class(&format!("boundaries:{}", boundaries(&c)));
                rep.class_if(c.burst > 0, "burst_then_silence_with_back_pressure");
                rep.class_if(c.stages.iter().any(|s| matches!(s, St::MergeFinite(..))), "merge_with_ended_input");
                if let Some((_, d)) = c.adaptive {
                    for l in o.latencies_ms.iter().flatten() {
                        lat.borrow_mut().push(*l / (d as f64 * boundaries(&c) as f64));
                    }
                }
                rep.sample(json!({"case": c, "latencies_ms": o.latencies_ms}));
                let nt = boundaries(&c) >= 2 && c.adaptive.map_or(false, |a| c.pauses.iter().any(|p| *p >= a.1));
                Case::Pass { nontrivial: if nt { Some(fingerprint(&c)) } else { None } }
            }
            Err(message) => Case::Fail { message, replay },
        }
    });
    let mut l = lat.into_inner();
    l.sort_by(|a, b| a.partial_cmp(b).unwrap());
    if !l.is_empty() {
        report.extra.insert("latency_over_delay_x_boundaries_median_x1000".into(), json!((l[l.len() / 2] * 1000.0) as u64));
        report.extra.insert("latency_over_delay_x_boundaries_max_x1000".into(), json!((l[l.len() - 1] * 1000.0) as u64));
    }
    report
}

fn replay(_ctx: &Ctx, v: &Value) -> Result<String, String> {
    let c: Case18 = serde_json::from_value(v["case"].clone()).map_err(|e| e.to_string())?;
    for i in 0..5 {
        let o = run_case(&c, AddrSeed { shard: 221, job: i })?;
        judge(&c, &o)?;
    }
    Ok("5 runs delivered everything while idle".into())
}

pub fn def() -> CheckDef {
    CheckDef {
        id: "C18",
        level: "exploration",
        rule: "timing jobs ChannelSource -> 1-4 repartitioning boundaries (shuffle / group_by / replication(One), optional maps; in 1/3 of the cases a merge with a finite stream that has already ended) -> collect_channel on local and multi-host layouts; batch mode adaptive(n in {1,4,64,1024}, d in {5,10,20,50} ms) or single/fixed; 1-12 inputs handed over one by one with pauses of 0, d/2 or 2d, optionally followed by a burst of 50-400 inputs 100 us apart in front of a slow (0.5-2 ms per element) map, then the source is kept open and idle; oracle: (a) adaptive: every element reaches the sink while the source is idle - a violation is declared only after max(3 s, 40 x boundaries x d) (measured latencies are reported relative to boundaries x d); (b) any mode: after the source is closed all elements have arrived when the job ends and the sink channel disconnects; the result-invariance part (c) is C01's metamorphic comparison across batch modes; non-trivial = adaptive, >= 2 boundaries and a pause >= d; distinct = hash of the case",
        assumptions: &["'small multiple of the delay' is judged with a generous cap (seconds) so that scheduling noise on a loaded machine cannot raise an alarm; the measured ratio is reported as evidence only"],
        modes: |t| vec![("main", t.pick(8, 8))],
        run,
        replay,
    }
}
