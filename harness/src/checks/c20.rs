//! C20 — fail-stop: a panic injected into a user closure (any closure position, any call count,
//! every replica that reaches it) must never be masked.
use std::time::{Duration, Instant};

use serde_json::{json, Value};

use crate::build::SinkOut;
use crate::engine::{check_sinks, run_spec, RunOpts, RunResult};
use crate::framework::*;
use crate::gen::{Gen, Profile};
use crate::obs::loc_str;
use crate::reference::evaluate;
use crate::run::{AddrSeed, HostOutcome};
use crate::spec::*;

use super::c01::{cap, watchdog};
use super::CheckDef;

pub fn count_closures(stages: &[Stage]) -> u32 {
    stages
        .iter()
        .map(|s| match s {
            Stage::Map(_) | Stage::Filter(_) | Stage::FlatMap(_) | Stage::FilterMap(..) => 1,
            Stage::Fork { branch, .. } => count_closures(branch),
            Stage::Diamond { left, right, .. } => count_closures(left) + count_closures(right),
            Stage::With { other, .. } => count_closures(&other.stages),
            Stage::Route { branches, .. } => branches.iter().map(|b| count_closures(b)).sum(),
            _ => 0,
        })
        .sum()
}

fn profile() -> Profile {
    Profile {
        name: "c20",
        w_simple: 45,
        w_fork: 0,
        w_replay: 0,
        w_iterate: 0,
        max_input: 600,
        ..Profile::base()
    }
}

/// Ok(Some(non-trivial)) when a crash happened and was handled fail-stop, Ok(None) when the crash
/// point was never reached.
pub fn judge(job: &JobSpec, cfg: &ConfigSpec, crash: (u32, u64), addr: AddrSeed, tier: Tier, shrinking: bool) -> Result<Option<bool>, String> {
    let opts = RunOpts { crash: Some(crash), watchdog: Some(watchdog(tier, shrinking)), ..RunOpts::default() };
    let run = match run_spec(job, cfg, &opts, addr) {
        RunResult::Done(r) => r,
        RunResult::Deadlock(d, ctx) => {
            let crashed = ctx.workers.lock().unwrap().ended.iter().any(|e| e.1);
            return Err(format!(
                "{}workers blocked forever instead of unwinding: {}",
                if crashed { "after the injected panic, " } else { "" },
                d.diagnosis
            ));
        }
        RunResult::Inconclusive(m) => return Err(format!("inconclusive: {m}")),
    };
    let panicked: Vec<_> = run.ctx.workers.lock().unwrap().ended.iter().filter(|e| e.1).map(|e| e.0).collect();
    if panicked.is_empty() {
        // the crash point was not reached: an ordinary run
        if let Some(reference) = evaluate(job, &cfg.layout.cores(), cap(tier)) {
            check_sinks(&run, &reference)?;
        }
        return Ok(None);
    }
    // every worker unwinds
    let deadline = Instant::now() + Duration::from_secs(if shrinking { 1 } else { 2 });
    loop {
        let w = run.ctx.workers.lock().unwrap();
        if w.live.is_empty() {
            break;
        }
        if Instant::now() > deadline {
            if std::env::var("VERIF_TRACE").is_ok() {
                eprintln!("started {:?}\nended {:?}\nparked {:?}", w.started, w.ended, w.parked);
            }
            return Err(format!(
                "after the injected panic {} workers never ended: {:?}",
                w.live.len(),
                w.live.iter().map(|l| format!("{} {:?}", loc_str(*l), w.parked.get(l).map(|p| p.0))).collect::<Vec<_>>()
            ));
        }
        drop(w);
        std::thread::sleep(Duration::from_millis(20));
    }
    // no sink of a host whose run failed holds a result, partial or complete
    for (h, any) in run.ctx.post_panic.lock().unwrap().iter() {
        if let Some(sinks) = any.downcast_ref::<Vec<SinkOut>>() {
            for (i, s) in sinks.iter().enumerate() {
                if !matches!(s, SinkOut::Nothing) {
                    return Err(format!(
                        "execute_blocking failed on host {h} after the injected panic, but sink {i} there published a result: {}",
                        match s {
                            SinkOut::Items(v) => format!("{} items", v.len()),
                            SinkOut::Count(c) => format!("count {c}"),
                            other => format!("{other:?}"),
                        }
                    ));
                }
            }
        }
    }
    // hosts that must fail: those running a panicked replica, and those running the sink
    let n_hosts = run.hosts.len();
    let mut must_fail = vec![false; n_hosts];
    for l in &panicked {
        must_fail[l.host_id as usize] = true;
    }
    match job.sink {
        SinkKind::CollectVecAll => must_fail.iter_mut().for_each(|x| *x = true),
        _ => must_fail[0] = true,
    }
    for (h, o) in run.hosts.iter().enumerate() {
        match o {
            HostOutcome::Panicked(_) => {}
            HostOutcome::Done(sinks) => {
                if must_fail[h] {
                    return Err(format!(
                        "a user function panicked in {:?} but execute_blocking returned normally on host {h}, which runs {}",
                        panicked.iter().map(|l| loc_str(*l)).collect::<Vec<_>>(),
                        if panicked.iter().any(|l| l.host_id as usize == h) { "the failed replica" } else { "the sink downstream of it" }
                    ));
                }
                for (i, s) in sinks.iter().enumerate() {
                    if !matches!(s, SinkOut::Nothing) {
                        return Err(format!(
                            "a user function panicked upstream but sink {i} on host {h} published a result: {}",
                            match s {
                                SinkOut::Items(v) => format!("{} items", v.len()),
                                SinkOut::Count(c) => format!("count {c}"),
                                other => format!("{other:?}"),
                            }
                        ));
                    }
                }
            }
        }
    }
    let started = run.ctx.workers.lock().unwrap().started.len();
    Ok(Some(panicked.len() < started && n_hosts >= 1))
}

/// Exhaustive mode: for every generated (small) program, EVERY user closure position x the call
/// counts {first, second, middle, last element of the input} is injected in turn.
fn run_enumerate(ctx: &Ctx) -> Report {
    let mut report = Report::default();
    let p = Profile { max_stages: 6, max_input: 60, ..profile() };
    let counter = std::cell::Cell::new(0u64);
    search(ctx, 2, ctx.cases(64, 960), 60..300, &mut report, |choices, rep, shrinking| {
        let mut g = Gen::new(choices, &p);
        let mut job = g.job();
        job.sink = [SinkKind::CollectVec, SinkKind::Collect, SinkKind::CollectCount, SinkKind::CollectVecAll][g.ch.weighted(&[5, 1, 2, 2])];
        if count_closures(&job.pipe.stages) == 0 {
            job.pipe.stages.push(Stage::Map(crate::rec::MapFn::Affine(1, 1)));
        }
        let closures = count_closures(&job.pipe.stages);
        let cfg = g.config(false, false);
        let len = job.pipe.source.len().max(1) as u64;
        let mut ks = vec![1u64, 2, (len / 2).max(1), len];
        ks.sort();
        ks.dedup();
        let mut nontrivial = None;
        let mut points = 0u64;
        for n in 0..closures {
            for &k in &ks {
                let c = counter.get();
                counter.set(c + 1);
                match judge(&job, &cfg, (n, k), AddrSeed { shard: ctx.shard, job: 100_000 + c }, ctx.tier, shrinking) {
                    Ok(Some(nt)) => {
                        points += 1;
                        if nt {
                            nontrivial = Some(fingerprint(&(&job, &cfg)));
                        }
                    }
                    Ok(None) => {}
                    Err(message) => {
                        return Case::Fail { message, replay: json!({"property": "C20", "job": job, "configs": [cfg], "crash": [n, k]}) }
                    }
                }
            }
        }
        let e = rep.extra.entry("crash_points_enumerated".into()).or_insert(json!(0u64));
        *e = json!(e.as_u64().unwrap_or(0) + (closures as u64) * ks.len() as u64);
        let e = rep.extra.entry("crash_points_reached".into()).or_insert(json!(0u64));
        *e = json!(e.as_u64().unwrap_or(0) + points);
        rep.class("programs_with_all_crash_points_enumerated");
        Case::Pass { nontrivial }
    });
    report
}

fn run(ctx: &Ctx, mode: &str) -> Report {
    if mode == "enumerate" {
        return run_enumerate(ctx);
    }
    let mut report = Report::default();
    let p = profile();
    let counter = std::cell::Cell::new(0u64);
    search(ctx, 1, ctx.cases(480, 4800), 60..400, &mut report, |choices, rep, shrinking| {
        let mut g = Gen::new(choices, &p);
        let mut job = g.job();
        job.sink = [SinkKind::CollectVec, SinkKind::Collect, SinkKind::CollectCount, SinkKind::CollectVecAll][g.ch.weighted(&[5, 1, 2, 2])];
        let closures = count_closures(&job.pipe.stages);
        if closures == 0 {
            job.pipe.stages.push(Stage::Map(crate::rec::MapFn::Affine(1, 1)));
        }
        let closures = count_closures(&job.pipe.stages);
        let n = g.ch.below(closures as usize) as u32;
        let k = match g.ch.below(4) {
            0 => 1,
            1 => 1 + g.ch.below(5) as u64,
            2 => 1 + g.ch.below(60) as u64,
            _ => 1 + g.ch.below(job.pipe.source.len().max(1)) as u64,
        };
        let cfg = g.config(ctx.tier == Tier::Thorough, false);
        // a quarter of the crash points fail slowly: the closure sleeps (longer than any adaptive
        // batching delay) before it panics, so the rest of the job goes idle first
        let slow = g.ch.flag(1, 4);
        let k = if slow { k | ((([60u64, 150][g.ch.below(2)]) as u64) << 40) } else { k };
        let c = counter.get();
        counter.set(c + 1);
        match judge(&job, &cfg, (n, k), AddrSeed { shard: ctx.shard, job: c }, ctx.tier, shrinking) {
            Ok(Some(nt)) => {
                rep.class("crash_reached");
                rep.class_if(cfg.layout.is_remote(), "config:multi_host");
                rep.class_if(k & ((1u64 << 40) - 1) == 1, "crash_on_first_call");
                rep.class_if(k >> 40 > 0, "slow_crash(sleep_before_panic)");
                rep.class_if(n + 1 == closures && closures > 1, "crash_in_last_closure");
                rep.sample(json!({"job": job, "config": cfg, "crash": {"closure": n, "call": k & ((1u64 << 40) - 1), "sleep_ms_before_panic": k >> 40}}));
                Case::Pass { nontrivial: if nt { Some(fingerprint(&(&job, &cfg, n, k))) } else { None } }
            }
            Ok(None) => {
                rep.class("crash_point_not_reached");
                Case::Pass { nontrivial: None }
            }
            Err(message) => Case::Fail { message, replay: json!({"property": "C20", "job": job, "configs": [cfg], "crash": [n, k]}) },
        }
    });
    report
}

fn replay(ctx: &Ctx, v: &Value) -> Result<String, String> {
    let job: JobSpec = serde_json::from_value(v["job"].clone()).map_err(|e| e.to_string())?;
    let cfgs: Vec<ConfigSpec> = serde_json::from_value(v["configs"].clone()).map_err(|e| e.to_string())?;
    let crash: (u32, u64) = serde_json::from_value(v["crash"].clone()).map_err(|e| e.to_string())?;
    for rep in 0..8 {
        for cfg in &cfgs {
            judge(&job, cfg, crash, AddrSeed { shard: 218, job: rep }, ctx.tier, false)?;
        }
    }
    Ok("8 runs were fail-stop".into())
}

pub fn def() -> CheckDef {
    CheckDef {
        id: "C20",
        level: "fault_enumeration",
        rule: "(sampled mode) random acyclic jobs (no loops, one final sink out of collect_vec / collect / collect_count / collect_vec_all, so every user closure is upstream of the sink) x a crash point = (index of a user closure in build order, call count k at which every replica's instance of that closure panics, a quarter of them after sleeping 60-150 ms so that the rest of the job goes idle first) x a deployment (local 1-8, 1-4 hosts, all batch modes); predicates: every host's execute_blocking returns or panics within the watchdog, every worker thread ends, execute_blocking panics on every host that runs a panicked replica or the sink, no host obtains a sink result - the output handles are read on the hosts whose execute_blocking failed too; when the crash point is not reached the run must equal the reference; (enumerate mode) for small programs (<= 6 stages, <= 60 elements) every user closure position x call counts {1, 2, middle, last} is injected in turn under one deployment; non-trivial = the crash was reached and some replica never panicked; distinct = hash of (job, configuration, crash point)",
        assumptions: &["the sampled mode draws crash points; the enumerate mode covers every closure position of small programs at four call counts, not every call count", "streaming sinks (collect_channel, for_each) publish incrementally by design and are excluded"],
        modes: |t| vec![("main", t.pick(8, 14)), ("enumerate", t.pick(4, 8))],
        run,
        replay,
    }
}
