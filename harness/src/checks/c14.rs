//! C14 — processing-time and session windows conserve elements whatever the timing. The managers
//! are driven directly (public window API) with real pauses; the oracle is timing independent.
use std::collections::BTreeMap;
use std::time::Duration;

use renoir::operator::window::{ProcessingTimeWindow, SessionWindow, WindowDescription, WindowManager};
use renoir::operator::StreamElement;
use serde_json::{json, Value};

use crate::framework::*;
use crate::gen::Chooser;

use super::c12::Collect;
use super::CheckDef;

#[derive(Clone, Debug, serde::Serialize, serde::Deserialize, Hash)]
pub enum Op {
    /// key, id, pause before the element in microseconds
    Elem(u8, i64, u32),
    Flush(u32),
}

#[derive(Clone, Debug, serde::Serialize, serde::Deserialize, Hash)]
pub struct History {
    /// 0 tumbling processing time, 1 sliding processing time, 2 session
    pub kind: u8,
    pub size_us: u32,
    pub slide_us: u32,
    pub ops: Vec<Op>,
}

pub fn decode(choices: &[u16]) -> History {
    let mut ch = Chooser::new(choices);
    let kind = ch.below(3) as u8;
    let size_us = [1000u32, 2000, 3000, 5000][ch.below(4)];
    let slide_us = match kind {
        1 => [size_us / 3, size_us / 2, size_us * 2 / 3][ch.below(3)].max(200),
        _ => size_us,
    };
    let keys = 1 + ch.below(3);
    let mut ops = Vec::new();
    let mut id = 0;
    let mut budget_us = 60_000i64;
    while !ch.exhausted() && ops.len() < 40 && budget_us > 0 {
        let pause = match ch.weighted(&[6, 3, 3, 2]) {
            0 => 0,
            1 => size_us / 3,
            2 => size_us - 50 + ch.below(100) as u32,
            _ => size_us * 3,
        };
        budget_us -= pause as i64;
        if ch.below(14) == 13 {
            ops.push(Op::Flush(pause));
        } else {
            id += 1;
            ops.push(Op::Elem(ch.below(keys) as u8, id, pause));
        }
    }
    ops.push(Op::Flush(0));
    History { kind, size_us, slide_us, ops }
}

fn sleep_us(us: u32) {
    if us > 0 {
        // spin for short pauses to be reasonably precise
        let t = std::time::Instant::now();
        if us > 1500 {
            std::thread::sleep(Duration::from_micros(us as u64 - 500));
        }
        while t.elapsed() < Duration::from_micros(us as u64) {
            std::hint::spin_loop();
        }
    }
}

macro_rules! drive {
    ($descr:expr, $h:expr) => {{
        let init = WindowDescription::<i64>::build(&$descr, Collect::default());
        let mut mgrs: BTreeMap<u8, _> = BTreeMap::new();
        // per iteration: per key results in emission order, and the input order
        let mut out: Vec<(BTreeMap<u8, Vec<Vec<i64>>>, BTreeMap<u8, Vec<i64>>)> = vec![Default::default()];
        for op in &$h.ops {
            match op {
                Op::Elem(k, id, pause) => {
                    sleep_us(*pause);
                    let m = mgrs.entry(*k).or_insert_with(|| init.clone());
                    let cur = out.last_mut().unwrap();
                    cur.1.entry(*k).or_default().push(*id);
                    for r in m.process(StreamElement::Item(*id)) {
                        cur.0.entry(*k).or_default().push(r.unwrap_item());
                    }
                }
                Op::Flush(pause) => {
                    sleep_us(*pause);
                    let keys: Vec<u8> = mgrs.keys().copied().collect();
                    for k in keys {
                        let m = mgrs.get_mut(&k).unwrap();
                        for r in m.process(StreamElement::FlushAndRestart) {
                            out.last_mut().unwrap().0.entry(k).or_default().push(r.unwrap_item());
                        }
                        if m.recycle() {
                            mgrs.remove(&k);
                        }
                    }
                    out.push(Default::default());
                }
            }
        }
        out
    }};
}

/// Ok(non-trivial) or Err(message).
pub fn check_history(h: &History) -> Result<bool, String> {
    let size = Duration::from_micros(h.size_us as u64);
    let slide = Duration::from_micros(h.slide_us as u64);
    let out = match h.kind {
        0 => drive!(ProcessingTimeWindow::tumbling(size), h),
        1 => drive!(ProcessingTimeWindow::sliding(size, slide), h),
        _ => drive!(SessionWindow::new(size), h),
    };
    let cover_max = ((h.size_us + h.slide_us - 1) / h.slide_us) as usize;
    let mut results = 0;
    for (it, (res, input)) in out.iter().enumerate() {
        for (k, ins) in input {
            let rs = res.get(k).cloned().unwrap_or_default();
            results += rs.len();
            if rs.iter().any(|r| r.is_empty()) {
                return Err(format!("iteration {it}, key {k}: an empty window result was emitted"));
            }
            if h.kind == 1 {
                // sliding: every element covered 1..=ceil(size/slide) times, nothing foreign
                for id in ins {
                    let c = rs.iter().filter(|r| r.contains(id)).count();
                    if c == 0 || c > cover_max {
                        return Err(format!(
                            "iteration {it}, key {k}: element {id} is in {c} results (sliding {} us / {} us allows 1..={cover_max})",
                            h.size_us, h.slide_us
                        ));
                    }
                }
                if rs.iter().flatten().any(|id| !ins.contains(id)) {
                    return Err(format!("iteration {it}, key {k}: a result contains an element of another key or iteration"));
                }
                for r in &rs {
                    if r.windows(2).any(|w| w[0] >= w[1]) {
                        return Err(format!("iteration {it}, key {k}: result {r:?} is not in arrival order"));
                    }
                }
            } else {
                // tumbling / session: the results partition the key's elements, in arrival order
                let flat: Vec<i64> = rs.iter().flatten().copied().collect();
                if &flat != ins {
                    return Err(format!(
                        "iteration {it}, key {k}: the results {rs:?} are not a partition, in arrival order, of the elements {ins:?}"
                    ));
                }
            }
        }
        for k in res.keys() {
            if !input.contains_key(k) {
                return Err(format!("iteration {it}: results for key {k}, which received no element in this iteration"));
            }
        }
    }
    let long_pause = h.ops.iter().any(|o| matches!(o, Op::Elem(_, _, p) if *p > h.size_us));
    Ok(results >= 2 && long_pause)
}

/// End to end: ChannelSource -> group_by -> processing-time / session window -> collect_vec, fed
/// with real pauses; the same timing-independent oracle on what the sink collects.
fn e2e_case(ctx: &Ctx, h: &History, n: u64) -> Result<bool, String> {
    use crate::obs::JobCtx;
    use crate::run::{run_job, AddrSeed, BuildFn, HostOutcome, JobOutcome, Layout, Watchdog};
    use renoir::operator::source::ChannelSource;
    use std::sync::Arc;
    let layout = Layout::Local(1 + (n % 4));
    let h2 = h.clone();
    let build: BuildFn<Option<Vec<(u8, Vec<i64>)>>> = Arc::new(move |env, _| {
        let (tx, src) = ChannelSource::<(u8, i64)>::new(16);
        let size = Duration::from_micros(h2.size_us as u64);
        let slide = Duration::from_micros(h2.slide_us as u64);
        let keyed = env
            .stream(src)
            .batch_mode(renoir::BatchMode::adaptive(8, Duration::from_millis(1)))
            .group_by(|x: &(u8, i64)| x.0)
            .map(|(_, x): (&u8, (u8, i64))| x.1);
        let out = match h2.kind {
            0 => keyed.window::<i64, _>(ProcessingTimeWindow::tumbling(size)).map(|v: Vec<i64>| v).collect_vec(),
            1 => keyed.window::<i64, _>(ProcessingTimeWindow::sliding(size, slide)).map(|v: Vec<i64>| v).collect_vec(),
            _ => keyed.window::<i64, _>(SessionWindow::new(size)).map(|v: Vec<i64>| v).collect_vec(),
        };
        let ops = h2.ops.clone();
        std::thread::spawn(move || {
            for op in ops {
                match op {
                    Op::Elem(k, id, pause) => {
                        sleep_us(pause);
                        if tx.send((k, id)).is_err() {
                            return;
                        }
                    }
                    // a single iteration end to end: the first marker closes the source
                    Op::Flush(pause) => {
                        sleep_us(pause);
                        break;
                    }
                }
            }
            drop(tx);
        });
        Box::new(move || out.get())
    });
    let jctx = JobCtx::new(None);
    let hosts = match run_job(&layout, AddrSeed { shard: ctx.shard, job: n }, jctx, build, Watchdog::default()) {
        JobOutcome::Finished(h) => h,
        JobOutcome::Deadlock(d) => return Err(format!("deadlock: {}", d.diagnosis)),
        JobOutcome::Inconclusive(m) => return Err(format!("inconclusive: {m}")),
    };
    let mut results: Vec<(u8, Vec<i64>)> = Vec::new();
    for (i, o) in hosts.into_iter().enumerate() {
        match o {
            HostOutcome::Done(Some(v)) => results.extend(v),
            HostOutcome::Done(None) => {}
            HostOutcome::Panicked(m) => return Err(format!("host {i} panicked: {m}")),
        }
    }
    // the elements of the first iteration, per key, in feed order
    let mut input: BTreeMap<u8, Vec<i64>> = BTreeMap::new();
    for op in &h.ops {
        match op {
            Op::Elem(k, id, _) => input.entry(*k).or_default().push(*id),
            Op::Flush(_) => break,
        }
    }
    let cover_max = ((h.size_us + h.slide_us - 1) / h.slide_us) as usize;
    let mut per_key: BTreeMap<u8, Vec<Vec<i64>>> = BTreeMap::new();
    for (k, r) in results {
        if r.is_empty() {
            return Err(format!("end to end: empty window result for key {k}"));
        }
        per_key.entry(k).or_default().push(r);
    }
    for (k, ins) in &input {
        let rs = per_key.remove(k).unwrap_or_default();
        if h.kind == 1 {
            for id in ins {
                let c = rs.iter().filter(|r| r.contains(id)).count();
                if c == 0 || c > cover_max {
                    return Err(format!("end to end, key {k}: element {id} is in {c} results (allowed 1..={cover_max})"));
                }
            }
            if rs.iter().flatten().any(|id| !ins.contains(id)) {
                return Err(format!("end to end, key {k}: a result contains a foreign element"));
            }
        } else {
            let flat: Vec<i64> = rs.iter().flatten().copied().collect();
            if &flat != ins {
                return Err(format!("end to end, key {k}: the results {rs:?} are not a partition, in arrival order, of {ins:?}"));
            }
        }
    }
    if let Some((k, _)) = per_key.iter().next() {
        return Err(format!("end to end: results for key {k}, which received no element"));
    }
    Ok(input.values().map(|v| v.len()).sum::<usize>() >= 3)
}

fn run(ctx: &Ctx, mode: &str) -> Report {
    if mode == "e2e" {
        let mut report = Report::default();
        let counter = std::cell::Cell::new(0u64);
        search(ctx, 2, ctx.cases(240, 4000), 10..90, &mut report, |choices, rep, _| {
            let h = decode(choices);
            let n = counter.get();
            counter.set(n + 1);
            match e2e_case(ctx, &h, n) {
                Ok(nt) => {
                    rep.class("end_to_end_jobs");
                    Case::Pass { nontrivial: if nt { Some(fingerprint(&h)) } else { None } }
                }
                Err(message) => Case::Fail { message, replay: json!({"property": "C14", "history": h, "e2e": true}) },
            }
        });
        return report;
    }
    let mut report = Report::default();
    search(ctx, 1, ctx.cases(1200, 20000), 10..90, &mut report, |choices, rep, _| {
        let h = decode(choices);
        match check_history(&h) {
            Ok(nt) => {
                rep.class(["tumbling_processing_time", "sliding_processing_time", "session"][h.kind as usize]);
                rep.class_if(h.ops.iter().any(|o| matches!(o, Op::Elem(_, _, p) if *p > h.size_us)), "pause_longer_than_window");
                rep.class_if(h.ops.iter().any(|o| matches!(o, Op::Elem(_, _, p) if *p + 60 > h.size_us && *p < h.size_us + 60)), "pause_about_the_window_size");
                if rep.samples.len() < 2 {
                    rep.sample(json!(h));
                }
                Case::Pass { nontrivial: if nt { Some(fingerprint(&h)) } else { None } }
            }
            Err(message) => Case::Fail { message, replay: json!({"property": "C14", "history": h}) },
        }
    });
    report
}

fn replay(ctx: &Ctx, v: &Value) -> Result<String, String> {
    let h: History = serde_json::from_value(v["history"].clone()).map_err(|e| e.to_string())?;
    if v.get("e2e").is_some() {
        for i in 0..10 {
            e2e_case(ctx, &h, 70_000 + i)?;
        }
        return Ok("10 end-to-end runs conserved the elements".into());
    }
    for _ in 0..20 {
        check_history(&h)?;
    }
    Ok("20 timed runs conserved the elements".into())
}

pub fn def() -> CheckDef {
    CheckDef {
        id: "C14",
        level: "exploration",
        rule: "timed histories: window size / gap 1-5 ms, 1-3 keys, up to 40 elements and end-of-iteration markers separated by real pauses drawn from {0, size/3, size +- 50 us, 3 x size}, fed to ProcessingTimeWindowManager (tumbling, sliding) and SessionWindowManager through the public window API as the keyed window operator does; timing-independent oracle: tumbling and session results are a partition of each key's elements in arrival order with no empty result, sliding covers each element 1..ceil(size/slide) times, everything pending is emitted at the end of the iteration, nothing crosses keys or iterations; a second mode feeds the first iteration of such a history through ChannelSource -> group_by -> window -> collect_vec on 1-4 replicas and applies the same oracle to what the sink collected; non-trivial = >= 2 results and a pause longer than the window; distinct = hash of the history",
        assumptions: &["'exactly at a boundary' is approached statistically (pauses of size +- 50 us); the wall clock is the real one"],
        modes: |t| vec![("main", t.pick(12, 16)), ("e2e", t.pick(4, 8))],
        run,
        replay,
    }
}
