//! C14 — processing-time and session windows conserve elements whatever the timing. The managers
//! are driven directly (public window API) with real pauses; the oracle is timing independent.
use std::collections::BTreeMap;
use std::time::Duration;

use renoir::operator::window::{ProcessingTimeWindow, SessionWindow, WindowDescription, WindowManager};
use renoir::operator::StreamElement;
use serde_json::{json, Value};

use crate::framework::*;
use crate::gen::Chooser;

use super::c12::Collect;
use super::CheckDef;

#[derive(Clone, Debug, serde::Serialize, serde::Deserialize, Hash)]
pub enum Op {
    /// key, id, pause before the element in microseconds
    Elem(u8, i64, u32),
    Flush(u32),
}

#[derive(Clone, Debug, serde::Serialize, serde::Deserialize, Hash)]
pub struct History {
    /// 0 tumbling processing time, 1 sliding processing time, 2 session
    pub kind: u8,
    pub size_us: u32,
    pub slide_us: u32,
    pub ops: Vec<Op>,
}

pub fn decode(choices: &[u16]) -> History {
    let mut ch = Chooser::new(choices);
    let kind = ch.below(3) as u8;
    let size_us = [1000u32, 2000, 3000, 5000][ch.below(4)];
    let slide_us = match kind {
        1 => [size_us / 3, size_us / 2, size_us * 2 / 3][ch.below(3)].max(200),
        _ => size_us,
    };
    let keys = 1 + ch.below(3);
    let mut ops = Vec::new();
    let mut id = 0;
    let mut budget_us = 60_000i64;
    while !ch.exhausted() && ops.len() < 40 && budget_us > 0 {
        let pause = match ch.weighted(&[6, 3, 3, 2]) {
            0 => 0,
            1 => size_us / 3,
            2 => size_us - 50 + ch.below(100) as u32,
            _ => size_us * 3,
        };
        budget_us -= pause as i64;
        if ch.below(14) == 13 {
            ops.push(Op::Flush(pause));
        } else {
            id += 1;
            ops.push(Op::Elem(ch.below(keys) as u8, id, pause));
        }
    }
    ops.push(Op::Flush(0));
    History { kind, size_us, slide_us, ops }
}

fn sleep_us(us: u32) {
    if us > 0 {
        // spin for short pauses to be reasonably precise
        let t = std::time::Instant::now();
        if us > 1500 {
            std::thread::sleep(Duration::from_micros(us as u64 - 500));
        }
        while t.elapsed() < Duration::from_micros(us as u64) {
            std::hint::spin_loop();
        }
    }
}

macro_rules! drive {
    ($descr:expr, $h:expr) => {{
        let init = WindowDescription::<i64>::build(&$descr, Collect::default());
        let mut mgrs: BTreeMap<u8, _> = BTreeMap::new();
        // per iteration: per key results in emission order, and the input order
        let mut out: Vec<(BTreeMap<u8, Vec<Vec<i64>>>, BTreeMap<u8, Vec<i64>>)> = vec![Default::default()];
        for op in &$h.ops {
            match op {
                Op::Elem(k, id, pause) => {
                    sleep_us(*pause);
                    let m = mgrs.entry(*k).or_insert_with(|| init.clone());
                    let cur = out.last_mut().unwrap();
                    cur.1.entry(*k).or_default().push(*id);
                    for r in m.process(StreamElement::Item(*id)) {
                        cur.0.entry(*k).or_default().push(r.unwrap_item());
                    }
                }
                Op::Flush(pause) => {
                    sleep_us(*pause);
                    let keys: Vec<u8> = mgrs.keys().copied().collect();
                    for k in keys {
                        let m = mgrs.get_mut(&k).unwrap();
                        for r in m.process(StreamElement::FlushAndRestart) {
                            out.last_mut().unwrap().0.entry(k).or_default().push(r.unwrap_item());
                        }
                        if m.recycle() {
                            mgrs.remove(&k);
                        }
                    }
                    out.push(Default::default());
                }
            }
        }
        out
    }};
}

/// Ok(non-trivial) or Err(message).
pub fn check_history(h: &History) -> Result<bool, String> {
    let size = Duration::from_micros(h.size_us as u64);
    let slide = Duration::from_micros(h.slide_us as u64);
    let out = match h.kind {
        0 => drive!(ProcessingTimeWindow::tumbling(size), h),
        1 => drive!(ProcessingTimeWindow::sliding(size, slide), h),
        _ => drive!(SessionWindow::new(size), h),
    };
    let cover_max = ((h.size_us + h.slide_us - 1) / h.slide_us) as usize;
    let mut results = 0;
    for (it, (res, input)) in out.iter().enumerate() {
        for (k, ins) in input {
            let rs = res.get(k).cloned().unwrap_or_default();
            results += rs.len();
            if rs.iter().any(|r| r.is_empty()) {
                return Err(format!("iteration {it}, key {k}: an empty window result was emitted"));
            }
            if h.kind == 1 {
                // sliding: every element covered 1..=ceil(size/slide) times, nothing foreign
                for id in ins {
                    let c = rs.iter().filter(|r| r.contains(id)).count();
                    if c == 0 || c > cover_max {
                        return Err(format!(
                            "iteration {it}, key {k}: element {id} is in {c} results (sliding {} us / {} us allows 1..={cover_max})",
                            h.size_us, h.slide_us
                        ));
                    }
                }
                if rs.iter().flatten().any(|id| !ins.contains(id)) {
                    return Err(format!("iteration {it}, key {k}: a result contains an element of another key or iteration"));
                }
                for r in &rs {
                    if r.windows(2).any(|w| w[0] >= w[1]) {
                        return Err(format!("iteration {it}, key {k}: result {r:?} is not in arrival order"));
                    }
                }
            } else {
                // tumbling / session: the results partition the key's elements, in arrival order
                let flat: Vec<i64> = rs.iter().flatten().copied().collect();
                if &flat != ins {
                    return Err(format!(
                        "iteration {it}, key {k}: the results {rs:?} are not a partition, in arrival order, of the elements {ins:?}"
                    ));
                }
            }
        }
        for k in res.keys() {
            if !input.contains_key(k) {
                return Err(format!("iteration {it}: results for key {k}, which received no element in this iteration"));
            }
        }
    }
    let long_pause = h.ops.iter().any(|o| matches!(o, Op::Elem(_, _, p) if *p > h.size_us));
    Ok(results >= 2 && long_pause)
}

fn run(ctx: &Ctx, _mode: &str) -> Report {
    let mut report = Report::default();
    search(ctx, 1, ctx.cases(480, 12000), 10..90, &mut report, |choices, rep, _| {
        let h = decode(choices);
        match check_history(&h) {
            Ok(nt) => {
                rep.class(["tumbling_processing_time", "sliding_processing_time", "session"][h.kind as usize]);
                rep.class_if(h.ops.iter().any(|o| matches!(o, Op::Elem(_, _, p) if *p > h.size_us)), "pause_longer_than_window");
                rep.class_if(h.ops.iter().any(|o| matches!(o, Op::Elem(_, _, p) if *p + 60 > h.size_us && *p < h.size_us + 60)), "pause_about_the_window_size");
                if rep.samples.len() < 2 {
                    rep.sample(json!(h));
                }
                Case::Pass { nontrivial: if nt { Some(fingerprint(&h)) } else { None } }
            }
            Err(message) => Case::Fail { message, replay: json!({"property": "C14", "history": h}) },
        }
    });
    report
}

fn replay(_ctx: &Ctx, v: &Value) -> Result<String, String> {
    let h: History = serde_json::from_value(v["history"].clone()).map_err(|e| e.to_string())?;
    for _ in 0..20 {
        check_history(&h)?;
    }
    Ok("20 timed runs conserved the elements".into())
}

pub fn def() -> CheckDef {
    CheckDef {
        id: "C14",
        level: "exploration",
        rule: "timed histories: window size / gap 1-5 ms, 1-3 keys, up to 40 elements and end-of-iteration markers separated by real pauses drawn from {0, size/3, size +- 50 us, 3 x size}, fed to ProcessingTimeWindowManager (tumbling, sliding) and SessionWindowManager through the public window API as the keyed window operator does; timing-independent oracle: tumbling and session results are a partition of each key's elements in arrival order with no empty result, sliding covers each element 1..ceil(size/slide) times, everything pending is emitted at the end of the iteration, nothing crosses keys or iterations; non-trivial = >= 2 results and a pause longer than the window; distinct = hash of the history",
        assumptions: &["'exactly at a boundary' is approached statistically (pauses of size +- 50 us); the wall clock is the real one"],
        modes: |t| vec![("main", t.pick(12, 16))],
        run,
        replay,
    }
}
