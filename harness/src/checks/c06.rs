//! Timestamped jobs. C06 (watermark safety at every probe), and the timestamp related parts of
//! C16 (reorder), C07 (fold result timestamp), C13 (event-time windows end to end) and C08
//! (interval join) share this engine.
use std::collections::{BTreeMap, HashMap};
use std::sync::Arc;

use renoir::operator::window::EventTimeWindow;
use serde_json::{json, Value};

use crate::dynop::erase;
use crate::framework::*;
use crate::gen::{Chooser, Gen, Profile};
use crate::obs::{JobCtx, ProbeEv};
use crate::rec::{mix_pair, Rec};
use crate::run::{run_job, AddrSeed, BuildFn, HostOutcome, JobOutcome, Layout};
use crate::spec::{BatchSpec, ConfigSpec};
use crate::ts::*;

use super::c01::watchdog;
use super::CheckDef;

pub struct TsRun {
    pub probes: Vec<ProbeEv>,
    pub info: Vec<(u32, String)>,
    pub sink: Vec<(i64, Option<i64>)>,
}

pub fn run_ts(job: &TsJob, cfg: &ConfigSpec, addr: AddrSeed, tier: Tier, shrinking: bool) -> Result<TsRun, String> {
    let ctx = JobCtx::new(cfg.delays.clone());
    let job2 = job.clone();
    let batch = cfg.batch;
    let info = Arc::new(std::sync::Mutex::new(Vec::new()));
    let info2 = info.clone();
    let build: BuildFn<Option<Vec<(Rec, Option<i64>)>>> = Arc::new(move |env, host| {
        let mut b = TsBuilder::new(env, batch);
        let s = b.job(&job2);
        if host == 0 {
            *info2.lock().unwrap() = b.info.clone();
        }
        let out = reify(s).collect_vec();
        Box::new(move || out.get())
    });
    match run_job(&cfg.layout, addr, ctx.clone(), build, watchdog(tier, shrinking)) {
        JobOutcome::Finished(hosts) => {
            let mut sink = Vec::new();
            for (h, o) in hosts.into_iter().enumerate() {
                match o {
                    HostOutcome::Done(Some(v)) => sink.extend(v.into_iter().map(|(r, t)| (r.v, t))),
                    HostOutcome::Done(None) => {}
                    HostOutcome::Panicked(m) => return Err(format!("host {h} panicked: {m}")),
                }
            }
            let probes = ctx.take_probes();
            let info = info.lock().unwrap().clone();
            Ok(TsRun { probes, info, sink })
        }
        JobOutcome::Deadlock(d) => Err(format!("deadlock: {}", d.diagnosis)),
        JobOutcome::Inconclusive(m) => Err(format!("inconclusive: {m}")),
    }
}

fn gen_cfg(ch: &mut Chooser) -> ConfigSpec {
    let p = Profile::base();
    // reuse the layout/batch/delay decoder of the job fuzzer
    let data: Vec<u16> = (0..24).map(|_| ch.next()).collect();
    let mut g = Gen::new(&data, &p);
    g.config(false, false)
}

#[derive(Clone, Copy, PartialEq)]
enum Mode {
    Safety,
    Reorder,
    Fold,
    /// reorder (and watermark safety) across several iterations of a single-replica chain
    ReorderIter,
    /// watermark safety (and reorder) at every probe of the body of a `replay` loop
    SafetyLoop,
    /// the timestamp of fold results inside a `replay` body whose content changes per round
    FoldLoop,
}

/// The classifier of the open known findings of C06 (see known_findings.json).
fn classify(job: &TsJob, probe: u32, info: &[(u32, String)]) -> Option<&'static str> {
    let name = info.iter().find(|i| i.0 == probe).map(|i| i.1.as_str())?;
    match name {
        "count_window" => {
            // F4: only the partial group flushed by a non-exact count window at the end of an
            // iteration can carry a timestamp <= an earlier watermark
            let non_exact = job.stages.iter().any(|s| matches!(s, TsStage::CountWindow { exact: false, .. }));
            if non_exact {
                Some("count-window-partial-flush-after-watermark")
            } else {
                None
            }
        }
        _ => None,
    }
}

fn downstream_of(job: &TsJob, kind: fn(&TsStage) -> bool, probe: u32) -> bool {
    // probe ids: 0 = source, then one per stage (merge allocates an extra id for its source first)
    let mut id = 0u32;
    for st in &job.stages {
        if let TsStage::Merge(_) | TsStage::Zip(_) = st {
            id += 1;
        }
        id += 1;
        if kind(st) && probe >= id {
            return true;
        }
    }
    false
}

fn stage_probe_ids(job: &TsJob) -> Vec<(u32, u32, &TsStage)> {
    // (probe before, probe after, stage)
    let mut v = Vec::new();
    // in a replay job probe 1 is the head of the loop body
    let mut cur = if job.replay_rounds > 0 { 1u32 } else { 0 };
    let mut next = cur + 1;
    for st in &job.stages {
        if let TsStage::Merge(_) | TsStage::Zip(_) = st {
            next += 1; // the second source's probe
        }
        v.push((cur, next, st));
        cur = next;
        next += 1;
    }
    v
}

/// Progress across rounds (C17 inside loops): when every source replica of the deployment replays a
/// script with at least one watermark, every consumer replica behind the first repartitioning of
/// the body receives (by broadcast) a watermark of every upstream replica before that replica's
/// end-of-round marker, so its frontier becomes defined in every round whatever the interleaving:
/// it must observe at least one watermark in EVERY round, not only in the first.
fn loop_progress(job: &TsJob, cfg: &ConfigSpec, g: &TsGroups) -> Result<(), String> {
    let cores = cfg.layout.total_cores() as usize;
    if job.replay_rounds == 0 || job.source.scripts.len() < cores {
        return Ok(());
    }
    if !job.source.scripts.iter().take(cores).all(|s| s[0].iter().any(|x| matches!(x, Sx::Wm(_)))) {
        return Ok(());
    }
    for (_, after, st) in stage_probe_ids(job) {
        match st {
            TsStage::Map | TsStage::Filter(..) | TsStage::FlatMap(_) | TsStage::Batch(_) | TsStage::RoundFilter => continue,
            TsStage::Shuffle | TsStage::KeyedMap(_) => {
                for ((p, loc), evs) in g.iter().filter(|((p, _), _)| *p == after) {
                    let mut round = 0;
                    let mut wms = 0;
                    for e in evs {
                        match e.kind {
                            renoir::verif::ElemKind::Watermark => wms += 1,
                            renoir::verif::ElemKind::FlushAndRestart => {
                                if wms == 0 {
                                    return Err(format!(
                                        "probe {p} at {}: no watermark observed in round {round} of the loop although every upstream replica sent watermarks in that round (watermarks withheld)",
                                        crate::obs::loc_str(*loc)
                                    ));
                                }
                                wms = 0;
                                round += 1;
                            }
                            _ => {}
                        }
                    }
                }
                return Ok(());
            }
            _ => return Ok(()),
        }
    }
    Ok(())
}

/// Sub-run for the open known finding F4: exactly the triggering shape (a non-exact count window
/// on a timestamped stream with watermarks).
fn run_kf(ctx: &Ctx, report: &mut Report) {
    let known = load_known(&ctx.verif_dir);
    if !is_open(&known, "C06", "count-window-partial-flush-after-watermark") {
        return;
    }
    let counter = std::cell::Cell::new(0u64);
    search(ctx, 9, ctx.cases(40, 400), 60..300, report, |choices, _rep, shrinking| {
        let mut ch = Chooser::new(choices);
        let mut next_id = 0;
        let mut source = gen_source(&mut ch, &ScriptOpts { max_replicas: 2, max_iterations: 1, max_len: 40, non_negative: false, styles: [6, 1, 1, 1], min_len: 0, wm_weight: 3 }, &mut next_id);
        // the first replica ends with two elements below a final watermark: with a window of 3 or
        // more elements they are the partial group of the finding
        source.scripts[0][0] = vec![Sx::Ts(1001, 1), Sx::Ts(1002, 2), Sx::Wm(5)];
        let n = ch.range(3, 5) as u8;
        let job = TsJob { source, stages: vec![TsStage::ReplicateOne, TsStage::CountWindow { k: 1, n, s: n, exact: false }], replay_rounds: 0 };
        let cfg = gen_cfg(&mut ch);
        let c = counter.get();
        counter.set(c + 1);
        let replay = json!({"property": "C06", "tsjob": job, "configs": [cfg], "mode": "safety"});
        let run = match run_ts(&job, &cfg, AddrSeed { shard: ctx.shard, job: 40000 + c }, ctx.tier, shrinking) {
            Ok(r) => r,
            Err(message) => return Case::Fail { message, replay },
        };
        match watermark_safety(&group(&run.probes), &run.info) {
            Ok(_) => Case::Pass { nontrivial: None },
            Err((probe, message)) => match classify(&job, probe, &run.info) {
                Some(key) => Case::Known { key: key.into(), what: format!("still reproduces, e.g. {message}") },
                None => Case::Fail { message, replay },
            },
        }
    });
    report.evaluations = 0;
    report.nontrivial.clear();
}

fn run_mode(ctx: &Ctx, mode: Mode, report: &mut Report, cases: u32, stream: u64) {
    let known = load_known(&ctx.verif_dir);
    let f4_open = is_open(&known, "C06", "count-window-partial-flush-after-watermark");
    let counter = std::cell::Cell::new(0u64);
    let id = ctx.id.clone();
    search(ctx, stream, cases, 60..500, report, |choices, rep, shrinking| {
        let mut ch = Chooser::new(choices);
        let prof = TsProfile {
            windows: mode == Mode::Safety || mode == Mode::SafetyLoop,
            in_replay: mode == Mode::SafetyLoop || mode == Mode::FoldLoop,
            non_exact_count_windows: !f4_open,
            reorder_only: mode == Mode::Reorder,
            single_replica_iterations: mode == Mode::ReorderIter,
        };
        let mut job = gen_job(&mut ch, &prof);
        match mode {
            Mode::Reorder | Mode::ReorderIter => {
                if !job.stages.iter().any(|s| matches!(s, TsStage::Reorder)) {
                    job.stages.push(TsStage::Reorder);
                }
            }
            Mode::Fold => {
                job.stages.retain(|s| !matches!(s, TsStage::GlobalFold | TsStage::KeyedFold(_) | TsStage::CountWindow { .. } | TsStage::EventWindow { .. } | TsStage::DropTimestamps));
                job.stages.push(if ch.flag(1, 2) { TsStage::GlobalFold } else { TsStage::KeyedFold([1, 2, 3, 7][ch.below(4)]) });
            }
            Mode::FoldLoop => {
                job.stages.retain(|s| !matches!(s, TsStage::GlobalFold | TsStage::KeyedFold(_) | TsStage::CountWindow { .. } | TsStage::EventWindow { .. } | TsStage::DropTimestamps | TsStage::Reorder));
                job.stages.insert(0, TsStage::RoundFilter);
                job.stages.push(if ch.flag(2, 3) { TsStage::GlobalFold } else { TsStage::KeyedFold([1, 2, 3, 7][ch.below(4)]) });
                job.stages.push(TsStage::DropTimestamps);
            }
            Mode::Safety => {}
            Mode::SafetyLoop => {
                if !job.stages.iter().any(|s| matches!(s, TsStage::Shuffle | TsStage::KeyedMap(_) | TsStage::KeyedFold(_) | TsStage::EventWindow { .. })) {
                    job.stages.insert(0, TsStage::Shuffle);
                }
            }
        }
        if f4_open && job.stages.iter().any(|s| matches!(s, TsStage::CountWindow { .. })) {
            // the non-exact variant is steered away from (open known finding F4)
            rep.excluded += 1;
        }
        let mut cfgs: Vec<ConfigSpec> = (0..2).map(|_| gen_cfg(&mut ch)).collect();
        if mode == Mode::SafetyLoop {
            // in half of the cases: a deployment in which every source replica has a script with
            // watermarks, so that the progress clause below applies
            let m = job.source.scripts.iter().take_while(|s| s[0].iter().any(|x| matches!(x, Sx::Wm(_)))).count();
            if m >= 2 && ch.flag(1, 2) {
                cfgs[0].layout = Layout::Local(2 + ch.below(m - 1) as u64);
            }
        }
        let mut nontrivial = None;
        for cfg in &cfgs {
            let n = counter.get();
            counter.set(n + 1);
            let replay = json!({"property": id, "tsjob": job, "configs": [cfg], "mode": match mode { Mode::Safety => "safety", Mode::SafetyLoop => "safety_loop", Mode::Reorder | Mode::ReorderIter => "reorder", Mode::Fold | Mode::FoldLoop => "fold" }});
            let run = match run_ts(&job, cfg, AddrSeed { shard: ctx.shard, job: n }, ctx.tier, shrinking) {
                Ok(r) => r,
                Err(message) => return Case::Fail { message, replay },
            };
            let g = group(&run.probes);
            match mode {
                Mode::Safety => match watermark_safety(&g, &run.info) {
                    Ok(k) => {
                        if k >= 1 && cfg.layout.total_cores() >= 2 {
                            nontrivial = Some(fingerprint(&(&job, cfg)));
                        }
                    }
                    Err((probe, message)) => {
                        if let Some(key) = classify(&job, probe, &run.info) {
                            if is_open(&known, "C06", key) {
                                return Case::Known { key: key.into(), what: message };
                            }
                        }
                        return Case::Fail { message, replay };
                    }
                },
                Mode::SafetyLoop => {
                    match watermark_safety(&g, &run.info) {
                        Ok(k) => {
                            let rounds_seen = g.values().map(|evs| evs.iter().filter(|e| e.kind == renoir::verif::ElemKind::FlushAndRestart).count()).max().unwrap_or(0);
                            if k >= 1 && cfg.layout.total_cores() >= 2 && rounds_seen >= 2 {
                                nontrivial = Some(fingerprint(&(&job, cfg)));
                            }
                        }
                        Err((_, message)) => return Case::Fail { message, replay },
                    }
                    if let Err(message) = loop_progress(&job, cfg, &g) {
                        return Case::Fail { message, replay };
                    }
                    for (before, after, st) in stage_probe_ids(&job) {
                        if let TsStage::Reorder = st {
                            if let Err(message) = reorder_oracle(&g, before, after) {
                                return Case::Fail { message, replay };
                            }
                        }
                    }
                    // the loop ran the requested number of rounds: the state counts the elements
                    // that reached the end of the body, and exactly one state element leaves
                    if run.sink.len() != 1 {
                        return Case::Fail { message: format!("the replay loop emitted {} state elements (expected 1)", run.sink.len()), replay };
                    }
                }
                Mode::Reorder | Mode::ReorderIter => {
                    if mode == Mode::ReorderIter {
                        // the safety monitor also holds across the iterations of the chain
                        if let Err((_, message)) = watermark_safety(&g, &run.info) {
                            return Case::Fail { message, replay };
                        }
                    }
                    for (before, after, st) in stage_probe_ids(&job) {
                        if let TsStage::Reorder = st {
                            match reorder_oracle(&g, before, after) {
                                Ok(k) => {
                                    if k >= 3 {
                                        nontrivial = Some(fingerprint(&(&job, cfg)));
                                    }
                                }
                                Err(message) => return Case::Fail { message, replay },
                            }
                        }
                    }
                }
                Mode::Fold | Mode::FoldLoop => {
                    for (before, after, st) in stage_probe_ids(&job) {
                        let key = match st {
                            TsStage::GlobalFold => None,
                            TsStage::KeyedFold(k) => Some((*k).max(1)),
                            _ => continue,
                        };
                        match fold_timestamp_oracle(&g, before, after, key) {
                            Ok(k) => {
                                if k >= 1 && (mode == Mode::Fold || k >= 2) {
                                    nontrivial = Some(fingerprint(&(&job, cfg)));
                                }
                            }
                            Err(message) => return Case::Fail { message, replay },
                        }
                    }
                }
            }
            rep.class_if(cfg.layout.is_remote(), "config:multi_host");
            rep.class("configs_run");
        }
        for st in &job.stages {
            rep.class(&format!("stage:{}", match st {
                TsStage::Map => "map", TsStage::Filter(..) => "filter", TsStage::FlatMap(_) => "flat_map", TsStage::Shuffle => "shuffle",
                TsStage::KeyedMap(_) => "group_by", TsStage::ReplicateOne => "replication_one", TsStage::Batch(_) => "batch_mode",
                TsStage::Reorder => "reorder", TsStage::GlobalFold => "fold", TsStage::KeyedFold(_) => "keyed_fold",
                TsStage::CountWindow { .. } => "count_window", TsStage::EventWindow { .. } => "event_time_window",
                TsStage::Merge(_) => "merge", TsStage::Zip(_) => "zip", TsStage::DropTimestamps => "drop_timestamps", TsStage::RoundFilter => "round_dependent_filter",
            }));
        }
        rep.class_if(job.source.iterations > 1, "multi_iteration_source");
        rep.class_if(job.source.scripts.len() > 1, "multi_replica_source");
        rep.sample(json!({"tsjob": job, "config": cfgs[0]}));
        let _ = downstream_of;
        Case::Pass { nontrivial }
    });
}

// ---- C13 end to end: event-time windows behind group_by with several upstream replicas --------

fn run_event_e2e(ctx: &Ctx, report: &mut Report, cases: u32) {
    let counter = std::cell::Cell::new(0u64);
    search(ctx, 7, cases, 60..400, report, |choices, rep, shrinking| e2e_case(ctx, choices, &counter, rep, shrinking));
}

fn e2e_case(ctx: &Ctx, choices: &[u16], counter: &std::cell::Cell<u64>, rep: &mut Report, shrinking: bool) -> Case {
    {
        let mut ch = Chooser::new(choices);
        let mut next_id = 0;
        let src = gen_source(&mut ch, &ScriptOpts { max_replicas: 5, max_iterations: 1, max_len: 40, non_negative: false, styles: [6, 1, 1, 1], min_len: 0, wm_weight: 3 }, &mut next_id);
        let size = ch.range(1, 10);
        let slide = if ch.flag(1, 2) { size } else { ch.range(1, size) };
        let k = [1i64, 2, 3][ch.below(3)];
        let shuffle_first = ch.flag(1, 2);
        let cfg = gen_cfg(&mut ch);
        let n = counter.get();
        counter.set(n + 1);
        let src2 = src.clone();
        let batch = cfg.batch;
        let build: BuildFn<Option<Vec<((i64, Vec<i64>), Option<i64>)>>> = Arc::new(move |env, _| {
            let mut b = TsBuilder::new(env, batch);
            let s = b.source(&src2);
            let s = if shuffle_first { erase(s.shuffle()) } else { s };
            let w = s
                .group_by(move |x: &Rec| x.v.rem_euclid(k))
                .map(|(_, x): (&i64, Rec)| x.v)
                .window::<i64, _>(EventTimeWindow::sliding(size, slide))
                .map(|v: Vec<i64>| v)
                .unkey();
            let out = reify(w).collect_vec();
            Box::new(move || out.get())
        });
        let jctx = JobCtx::new(cfg.delays.clone());
        let replay = json!({"property": "C13", "e2e": {"source": src, "size": size, "slide": slide, "k": k, "shuffle_first": shuffle_first}, "configs": [cfg], "choices": choices});
        let hosts = match run_job(&cfg.layout, AddrSeed { shard: ctx.shard, job: n }, jctx, build, watchdog(ctx.tier, shrinking)) {
            JobOutcome::Finished(h) => h,
            JobOutcome::Deadlock(d) => return Case::Fail { message: format!("deadlock: {}", d.diagnosis), replay },
            JobOutcome::Inconclusive(m) => return Case::Inconclusive(m),
        };
        let mut results = Vec::new();
        for (h, o) in hosts.into_iter().enumerate() {
            match o {
                HostOutcome::Done(Some(v)) => results.extend(v),
                HostOutcome::Done(None) => {}
                HostOutcome::Panicked(m) => return Case::Fail { message: format!("host {h} panicked: {m}"), replay },
            }
        }
        // validity predicates over all iterations (ids are unique across iterations)
        let mut ts_of: HashMap<i64, i64> = HashMap::new();
        for it in 0..src.iterations {
            for (id, ts) in src.elements(it, &cfg.layout.cores()) {
                ts_of.insert(id, ts);
            }
        }
        let mut cover: BTreeMap<i64, usize> = BTreeMap::new();
        for ((key, ids), end) in &results {
            let Some(end) = end else {
                return Case::Fail { message: format!("window result {ids:?} without timestamp"), replay };
            };
            for id in ids {
                let Some(ts) = ts_of.get(id) else {
                    return Case::Fail { message: format!("result contains unknown element {id}"), replay };
                };
                if id.rem_euclid(k) != *key {
                    return Case::Fail { message: format!("result of key {key} contains element {id} of key {}", id.rem_euclid(k)), replay };
                }
                if !(*ts >= end - size && *ts < *end) {
                    return Case::Fail { message: format!("result stamped {end} (size {size}) contains element {id} with timestamp {ts}"), replay };
                }
                *cover.entry(*id).or_default() += 1;
            }
        }
        let max_cover = ((size + slide - 1) / slide) as usize;
        for id in ts_of.keys() {
            let c = cover.get(id).copied().unwrap_or(0);
            if c == 0 {
                return Case::Fail { message: format!("element {id} (timestamp {}) is in no window result; no element is late when every source replica respects the contract", ts_of[id]), replay };
            }
            if c > max_cover {
                return Case::Fail { message: format!("element {id} is in {c} window results, at most {max_cover} windows can contain it"), replay };
            }
        }
        rep.class("e2e_jobs");
        rep.class_if(src.scripts.len() >= 2, "e2e:multi_replica_source");
        rep.class_if(cfg.layout.is_remote(), "config:multi_host");
        let nt = src.scripts.len() >= 2 && results.len() >= 2;
        Case::Pass { nontrivial: if nt { Some(fingerprint(&(&src, size, slide, k, &cfg))) } else { None } }
    }
}

// ---- C08: interval join --------------------------------------------------------------------------

fn run_interval(ctx: &Ctx, report: &mut Report, cases: u32) {
    let counter = std::cell::Cell::new(0u64);
    search(ctx, 8, cases, 60..400, report, |choices, rep, shrinking| interval_case(ctx, choices, &counter, rep, shrinking));
}

fn interval_case(ctx: &Ctx, choices: &[u16], counter: &std::cell::Cell<u64>, rep: &mut Report, shrinking: bool) -> Case {
    {
        let mut ch = Chooser::new(choices);
        let mut next_id = 0;
        let o = ScriptOpts { max_replicas: 4, max_iterations: 1, max_len: 30, non_negative: true, styles: [6, 1, 1, 1], min_len: 0, wm_weight: 3 };
        let left = gen_source(&mut ch, &o, &mut next_id);
        let mut right = gen_source(&mut ch, &o, &mut next_id);
        right.iterations = left.iterations;
        for s in right.scripts.iter_mut() {
            s.resize(left.iterations, Vec::new());
        }
        let lower = ch.range(0, 20);
        let upper = ch.range(0, 20);
        let keyed = ch.flag(1, 2);
        let k = [1i64, 2, 3][ch.below(3)];
        let cfg = gen_cfg(&mut ch);
        let n = counter.get();
        counter.set(n + 1);
        let (l2, r2) = (left.clone(), right.clone());
        let batch = cfg.batch;
        let build: BuildFn<Option<Vec<(Rec, Option<i64>)>>> = Arc::new(move |env, _| {
            let mut b = TsBuilder::new(env, batch);
            let l = b.source(&l2);
            let r = b.source(&r2);
            let joined = if keyed {
                erase(
                    l.group_by(move |x: &Rec| x.v.rem_euclid(k))
                        .interval_join(r.group_by(move |x: &Rec| x.v.rem_euclid(k)), lower, upper)
                        .unkey()
                        .map(|(_, (a, b))| Rec::new(mix_pair(Some(a.v), Some(b.v)))),
                )
            } else {
                erase(l.interval_join(r, lower, upper).map(|(a, b)| Rec::new(mix_pair(Some(a.v), Some(b.v)))))
            };
            let out = reify(joined).collect_vec();
            Box::new(move || out.get())
        });
        let replay = json!({"property": "C08", "interval": {"left": left, "right": right, "lower": lower, "upper": upper, "keyed": keyed, "k": k}, "configs": [cfg], "choices": choices});
        let jctx = JobCtx::new(cfg.delays.clone());
        let hosts = match run_job(&cfg.layout, AddrSeed { shard: ctx.shard, job: 30000 + n }, jctx, build, watchdog(ctx.tier, shrinking)) {
            JobOutcome::Finished(h) => h,
            JobOutcome::Deadlock(d) => return Case::Fail { message: format!("deadlock: {}", d.diagnosis), replay },
            JobOutcome::Inconclusive(m) => return Case::Inconclusive(m),
        };
        let mut got = Vec::new();
        for (h, o) in hosts.into_iter().enumerate() {
            match o {
                HostOutcome::Done(Some(v)) => got.extend(v.into_iter().map(|(r, _)| r.v)),
                HostOutcome::Done(None) => {}
                HostOutcome::Panicked(m) => return Case::Fail { message: format!("host {h} panicked: {m}"), replay },
            }
        }
        let mut exp = Vec::new();
        for it in 0..left.iterations {
            for (a, ta) in left.elements(it, &cfg.layout.cores()) {
                for (b, tb) in right.elements(it, &cfg.layout.cores()) {
                    if (!keyed || a.rem_euclid(k) == b.rem_euclid(k)) && ta - lower <= tb && tb <= ta + upper {
                        exp.push(mix_pair(Some(a), Some(b)));
                    }
                }
            }
        }
        got.sort();
        exp.sort();
        if got != exp {
            return Case::Fail {
                message: format!("interval join (lower {lower}, upper {upper}, keyed {keyed}): {} pairs emitted, {} expected", got.len(), exp.len()),
                replay,
            };
        }
        rep.class("interval_join_jobs");
        rep.class_if(keyed, "interval:keyed");
        let nt = exp.len() >= 2 && left.elements(0, &cfg.layout.cores()).len() >= 2;
        Case::Pass { nontrivial: if nt { Some(fingerprint(&(&left, &right, lower, upper, keyed, &cfg))) } else { None } }
    }
}

fn run(ctx: &Ctx, mode: &str) -> Report {
    let mut report = Report::default();
    match (ctx.id.as_str(), mode) {
        ("C06", "kf") => run_kf(ctx, &mut report),
        (_, "loop") => run_mode(ctx, Mode::SafetyLoop, &mut report, ctx.cases(240, 6000), 5),
        ("C06", _) => run_mode(ctx, Mode::Safety, &mut report, ctx.cases(500, 12000), 1),
        (_, "reorder") => run_mode(ctx, Mode::Reorder, &mut report, ctx.cases(240, 6000), 2),
        (_, "reorder_iter") => run_mode(ctx, Mode::ReorderIter, &mut report, ctx.cases(240, 6000), 4),
        (_, "fold_ts") => run_mode(ctx, Mode::Fold, &mut report, ctx.cases(160, 4000), 3),
        (_, "fold_ts_loop") => run_mode(ctx, Mode::FoldLoop, &mut report, ctx.cases(120, 3000), 6),
        (_, "event_e2e") => run_event_e2e(ctx, &mut report, ctx.cases(240, 6000)),
        (_, "interval") => run_interval(ctx, &mut report, ctx.cases(240, 6000)),
        _ => {}
    }
    report
}

pub fn replay_ts(ctx: &Ctx, v: &Value) -> Result<String, String> {
    if v.get("choices").is_some() {
        let choices: Vec<u16> = serde_json::from_value(v["choices"].clone()).map_err(|e| e.to_string())?;
        let counter = std::cell::Cell::new(50_000u64);
        for _ in 0..10 {
            let mut rep = Report::default();
            let c = if v.get("interval").is_some() {
                interval_case(ctx, &choices, &counter, &mut rep, false)
            } else {
                e2e_case(ctx, &choices, &counter, &mut rep, false)
            };
            if let Case::Fail { message, .. } = c {
                return Err(message);
            }
        }
        return Ok("10 runs satisfied the oracle".into());
    }
    let job: TsJob = serde_json::from_value(v["tsjob"].clone()).map_err(|e| e.to_string())?;
    let cfgs: Vec<ConfigSpec> = serde_json::from_value(v["configs"].clone()).map_err(|e| e.to_string())?;
    let mode = v["mode"].as_str().unwrap_or("safety");
    let mut n = 0;
    for rep in 0..10u64 {
        for cfg in &cfgs {
            n += 1;
            let run = run_ts(&job, cfg, AddrSeed { shard: 215, job: rep * 8 + n }, ctx.tier, false)?;
            let g = group(&run.probes);
            match mode {
                "safety_loop" => {
                    watermark_safety(&g, &run.info).map_err(|e| e.1)?;
                    loop_progress(&job, cfg, &g)?;
                    for (b, a, st) in stage_probe_ids(&job) {
                        if let TsStage::Reorder = st {
                            reorder_oracle(&g, b, a)?;
                        }
                    }
                }
                "reorder" => {
                    for (b, a, st) in stage_probe_ids(&job) {
                        if let TsStage::Reorder = st {
                            reorder_oracle(&g, b, a)?;
                        }
                    }
                }
                "fold" => {
                    for (b, a, st) in stage_probe_ids(&job) {
                        match st {
                            TsStage::GlobalFold => {
                                fold_timestamp_oracle(&g, b, a, None)?;
                            }
                            TsStage::KeyedFold(k) => {
                                fold_timestamp_oracle(&g, b, a, Some((*k).max(1)))?;
                            }
                            _ => {}
                        }
                    }
                }
                _ => {
                    watermark_safety(&g, &run.info).map_err(|e| e.1)?;
                }
            }
        }
    }
    Ok(format!("{n} runs satisfied the oracle"))
}

pub fn def() -> CheckDef {
    CheckDef {
        id: "C06",
        level: "exploration",
        rule: "random timestamped jobs: 1-5 scripted source replicas whose scripts respect the watermark contract (out-of-order within the bound, replicas without watermarks / without data / ending early, explicit FlushBatch), then 1-6 stages out of map, filter, flat_map, shuffle, group_by, replication(One), batch_mode, reorder, fold, keyed fold, count window, event-time window, merge / zip with a second scripted source, drop_timestamps; 2 deployments each; oracle at every probe of every replica, per iteration: after Watermark(t) no element with timestamp <= t and no watermark <= t; non-trivial = some probe saw >= 2 watermarks and the deployment has >= 2 replicas; distinct = hash of (job, configuration); mode loop: the stages (map, filter, flat_map, shuffle, group_by, batch_mode, reorder, keyed fold, event-time window) are the body of replay(2-4 rounds) over the scripted source, whose timestamped script the loop head replays every round - same oracle per round at every probe of the body, plus progress across rounds (when every source replica of the deployment has a script with watermarks, every replica behind the first repartitioning of the body observes at least one watermark in every round); non-trivial additionally needs >= 2 rounds observed",
        assumptions: &["arrival interleavings at multi-input blocks are sampled here and owned (lock-step) in C17's frontier model check"],
        modes: |t| vec![("main", t.pick(8, 12)), ("loop", t.pick(4, 6)), ("kf", 1)],
        run,
        replay: replay_ts,
    }
}

pub const _BATCH: Option<BatchSpec> = None;
pub const _LAYOUT: Option<Layout> = None;

pub fn run_other(ctx: &Ctx, mode: &str) -> Report {
    run(ctx, mode)
}
