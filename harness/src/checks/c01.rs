//! C01 — deployment transparency: every sink of every generated job equals the sequential
//! reference, under K configurations per program.
use serde_json::{json, Value};

use crate::engine::{check_sinks, run_spec, RunOpts, RunResult};
use crate::framework::*;
use crate::gen::{Gen, Profile};
use crate::reference::evaluate;
use crate::run::AddrSeed;
use crate::spec::*;

use super::CheckDef;

pub fn def() -> CheckDef {
    CheckDef {
        id: "C01",
        level: "exploration",
        rule: "random typed job DAGs (choice-sequence decoder, profile `base`) x K deployment configurations (local 1-8, 1-4 hosts x 1-4 cores, batch modes, delay injection); oracle: every sink equals the sequential reference interpreter; a second mode (xproc) runs each program on a multi-host configuration with one OS PROCESS per host (`vrun xhost`, the same build; loopback TCP between the processes) and judges the sinks the same way; non-trivial = non-empty input, >=1 repartitioning edge and >=2 replicas in the configuration; distinct = structural hash of (job, configuration)",
        assumptions: &[
            "aggregation functions are associative and commutative; order-dependent operators (zip, count windows) only on deterministically ordered inputs",
            "thread and network schedules are sampled (OS nondeterminism + seeded delay injection), not enumerated",
            "in the main mode hosts are simulated as threads of one process over real loopback TCP (needed for the observer); the xproc mode uses one process per host, without observer, delay injection or deadlock diagnosis (a timeout there is reported as inconclusive)",
        ],
        modes: |t| vec![("main", t.pick(8, 14)), ("xproc", t.pick(4, 6))],
        run: |ctx, mode| {
            if mode == "xproc" {
                run_xproc(ctx, &Profile::base())
            } else {
                run(ctx, mode)
            }
        },
        replay,
    }
}

/// One run of (job, config) with one OS process per host; Err = could not be judged.
pub fn judge_xproc(job: &JobSpec, cfg: &ConfigSpec, addr: AddrSeed, ctx: &Ctx, shrinking: bool) -> Result<Result<(), String>, Case> {
    let Some(reference) = evaluate(job, &cfg.layout.cores(), cap(ctx.tier)) else {
        return Err(Case::Discard);
    };
    let timeout = std::time::Duration::from_secs(if shrinking { 30 } else { 90 });
    match crate::engine::run_spec_processes(job, cfg, addr, &ctx.verif_dir.join(".work"), timeout) {
        Ok(hosts) => Ok(crate::engine::check_sinks_of(&hosts, &[], &reference)),
        // no view inside the processes: a time budget hit is inconclusive, not a violation
        Err(m) => Err(Case::Inconclusive(m)),
    }
}

/// Deployment transparency with REAL processes: the hosts of a multi-host configuration run as
/// separate OS processes (as in a cluster), so nothing that is only consistent within one process
/// can hide. Oracle: the sinks equal the sequential reference.
pub fn run_xproc(ctx: &Ctx, profile: &Profile) -> Report {
    let mut report = Report::default();
    let counter = std::cell::Cell::new(0u64);
    search(ctx, 8, ctx.cases(64, 640), 60..300, &mut report, |choices, rep, shrinking| {
        let mut g = Gen::new(choices, profile);
        let job = g.job();
        let feats = features(&job);
        let mut cfg = g.config(false, crate::gen::amplifying_iterate(&job.pipe.stages));
        rep.excluded += g.steered as u64;
        if !cfg.layout.is_remote() {
            let t = cfg.layout.total_cores().max(2);
            cfg.layout = crate::run::Layout::Hosts(vec![(t + 1) / 2, t / 2]);
        }
        // delay injection lives in the observer of the harness process: not available here
        cfg.delays = None;
        let n = counter.get();
        counter.set(n + 1);
        let replay = json!({"property": ctx.id, "xproc": true, "job": job, "configs": [cfg]});
        match judge_xproc(&job, &cfg, AddrSeed { shard: ctx.shard, job: 45_000 + n }, ctx, shrinking) {
            Ok(Ok(())) => {
                rep.class("multi_process_runs");
                rep.class_if(feats.has_join, "job:join");
                rep.class_if(feats.has_agg, "job:aggregation");
                rep.class_if(feats.has_loop, "job:loop");
                if rep.samples.len() < 2 {
                    rep.sample(json!({"job": job, "config": cfg}));
                }
                let nt = feats.repartitions >= 1 && job.pipe.source.len() > 0;
                Case::Pass { nontrivial: if nt { Some(fingerprint(&(&job, &cfg))) } else { None } }
            }
            Ok(Err(message)) => Case::Fail { message: format!("[one process per host] {message}"), replay },
            Err(c) => c,
        }
    });
    report
}

/// Quiescence window: 10 s / 20 s; while shrinking an already confirmed failure 3 s are enough
/// (the final case is what is reported, and the replay uses the full window again).
pub fn watchdog(tier: Tier, shrinking: bool) -> crate::run::Watchdog {
    use std::time::Duration;
    crate::run::Watchdog {
        quiescence: if shrinking { Duration::from_secs(3) } else { Duration::from_secs(tier.pick(10, 20)) },
        budget: Duration::from_secs(tier.pick(90, 300)),
    }
}

pub fn cap(tier: Tier) -> usize {
    tier.pick(60_000, 400_000)
}

/// Run one (job, config) pair and judge it. Shared by several checks.
pub fn judge(job: &JobSpec, cfg: &ConfigSpec, addr: AddrSeed, tier: Tier, shrinking: bool) -> Result<Result<(), String>, Case> {
    let Some(reference) = evaluate(job, &cfg.layout.cores(), cap(tier)) else {
        return Err(Case::Discard);
    };
    let opts = RunOpts { watchdog: Some(watchdog(tier, shrinking)), ..RunOpts::default() };
    match run_spec(job, cfg, &opts, addr) {
        RunResult::Done(run) => Ok(check_sinks(&run, &reference)),
        RunResult::Deadlock(d, _) => Ok(Err(format!("deadlock: {}", d.diagnosis))),
        RunResult::Inconclusive(m) => Err(Case::Inconclusive(m)),
    }
}

fn run(ctx: &Ctx, _mode: &str) -> Report {
    let mut report = Report::default();
    let profile = Profile::base();
    let k = ctx.tier.pick(3usize, 5usize);
    let cases = ctx.cases(360, 3600);
    let counter = std::cell::Cell::new(0u64);
    search(ctx, 1, cases, 60..400, &mut report, |choices, rep, shrinking| {
        let mut g = Gen::new(choices, &profile);
        let job = g.job();
        let feats = features(&job);
        let configs: Vec<ConfigSpec> = (0..k)
            .map(|_| g.config(ctx.tier == Tier::Thorough, crate::gen::amplifying_iterate(&job.pipe.stages)))
            .collect();
        rep.excluded += g.steered as u64;
        let mut nontrivial = None;
        for cfg in &configs {
            let n = counter.get();
            counter.set(n + 1);
            let addr = AddrSeed { shard: ctx.shard, job: n };
            match judge(&job, cfg, addr, ctx.tier, shrinking) {
                Ok(Ok(())) => {}
                Ok(Err(message)) => {
                    return Case::Fail {
                        message,
                        replay: json!({"property": "C01", "job": job, "configs": [cfg]}),
                    }
                }
                Err(c) => return c,
            }
            let multi = cfg.layout.total_cores() >= 2;
            if multi && feats.repartitions >= 1 && job.pipe.source.len() > 0 {
                nontrivial = Some(fingerprint(&(&job, cfg)));
            }
            rep.class_if(cfg.layout.is_remote(), "config:multi_host");
            rep.class_if(cfg.delays.is_some(), "config:delays");
            rep.class_if(matches!(cfg.batch, Some(b) if b.size() <= 8), "config:small_batches");
            rep.class("configs_run");
        }
        rep.class_if(feats.has_loop, "job:loop");
        rep.class_if(feats.nested_loop, "job:nested_loop");
        rep.class_if(feats.diamond, "job:diamond");
        rep.class_if(feats.multi_sink, "job:multi_sink");
        rep.class_if(feats.multi_source, "job:multi_source");
        rep.class_if(feats.has_join, "job:join");
        rep.class_if(feats.has_agg, "job:aggregation");
        rep.class_if(feats.has_window, "job:count_window");
        rep.class_if(feats.has_route, "job:route");
        rep.class_if(feats.side_input, "job:side_input");
        rep.class_if(feats.empty_source, "job:empty_source");
        rep.sample(json!({"job": job, "config": configs[0]}));
        Case::Pass { nontrivial }
    });
    report
}

pub fn replay(ctx: &Ctx, v: &Value) -> Result<String, String> {
    let job: JobSpec = serde_json::from_value(v["job"].clone()).map_err(|e| format!("bad replay file: {e}"))?;
    let configs: Vec<ConfigSpec> =
        serde_json::from_value(v["configs"].clone()).map_err(|e| format!("bad replay file: {e}"))?;
    let mut n = 0;
    if v.get("xproc").is_some() {
        for rep in 0..5u64 {
            match judge_xproc(&job, &configs[0], AddrSeed { shard: 222, job: 46_000 + rep }, ctx, false) {
                Ok(Ok(())) => {}
                Ok(Err(m)) => return Err(format!("[one process per host] {m}")),
                Err(Case::Inconclusive(m)) => return Err(format!("inconclusive: {m}")),
                Err(_) => {}
            }
        }
        return Ok("5 multi-process runs agreed with the reference".into());
    }
    if std::env::var("VERIF_TRACE").is_ok() {
        // debugging aid: run until the first failure and dump the link history
        for rep in 0..20u64 {
            let cfg = &configs[0];
            let opts = RunOpts { record_links: true, probes: true, stamp: true, watchdog: Some(watchdog(ctx.tier, true)), ..RunOpts::default() };
            let reference = evaluate(&job, &cfg.layout.cores(), cap(ctx.tier)).unwrap();
            match run_spec(&job, cfg, &opts, AddrSeed { shard: 220, job: rep }) {
                RunResult::Done(run) => {
                    let mut bad = check_sinks(&run, &reference);
                    if std::env::var("VERIF_TRACE_ALWAYS").is_ok() && bad.is_ok() {
                        bad = Err("trace requested".into());
                    }
                    if bad.is_err() {
                        let mut lines: Vec<(u64, String)> = Vec::new();
                        for s in &run.sends {
                            lines.push((s.seq, format!("SEND {} -> {} {:?}", crate::obs::loc_str(s.from), crate::obs::ep_str(s.ep), s.msg.iter().map(|e| format!("{:?}:{:x}", e.kind, e.digest & 0xffff)).collect::<Vec<_>>())));
                        }
                        for s in &run.recvs {
                            lines.push((s.seq, format!("RECV {} <- {} {:?}", crate::obs::ep_str(s.ep), crate::obs::loc_str(s.from), s.msg.iter().map(|e| format!("{:?}", e.kind)).collect::<Vec<_>>())));
                        }
                        for p in &run.probes {
                            lines.push((p.seq, format!("PROBE {} at {} {:?} v={} d={:x}", p.probe, crate::obs::loc_str(p.loc), p.kind, p.v, p.digest & 0xffff)));
                        }
                        let w = run.ctx.workers.lock().unwrap();
                        for (l, p) in &w.ended {
                            lines.push((u64::MAX, format!("END {} panicked={}", crate::obs::loc_str(*l), p)));
                        }
                        lines.sort();
                        for (s, l) in lines {
                            println!("{s} {l}");
                        }
                        println!("{:?}", run.probe_info);
                        return Err(bad.unwrap_err());
                    }
                }
                _ => return Err("deadlock/inconclusive".into()),
            }
        }
        return Ok("no failure in 20 traced runs".into());
    }
    for rep in 0..10u64 {
        for cfg in &configs {
            n += 1;
            match judge(&job, cfg, AddrSeed { shard: 200 + ctx.shard, job: rep * 16 + n }, ctx.tier, false) {
                Ok(Ok(())) => {}
                Ok(Err(m)) => return Err(m),
                Err(Case::Fatal { message, .. }) => return Err(message),
                Err(_) => {}
            }
        }
    }
    Ok(format!("{n} runs agreed with the reference"))
}
