//! Engine checks that share the job fuzzer: a profile (generator bias), a set of monitors (the
//! property's own oracle) and a non-triviality rule.
use std::collections::HashSet;

use serde_json::{json, Value};

use crate::engine::{check_sinks, run_spec, JobRun, RunOpts, RunResult};
use crate::framework::*;
use crate::gen::{min_explicit_batch, Gen, Profile};
use crate::monitors as mon;
use crate::reference::{evaluate, RefOut};
use crate::run::AddrSeed;
use crate::spec::*;

use super::c01::{cap, watchdog};
use super::CheckDef;

#[derive(Clone, Copy, Default)]
pub struct Monitors {
    pub sinks: bool,
    pub grammar: bool,
    pub per_iteration: bool,
    pub alignment: bool,
    pub loop_state: bool,
    pub workers: bool,
    pub links: bool,
    pub fifo: bool,
    pub routing: bool,
    pub placement: bool,
}

pub struct JobCheck {
    pub id: &'static str,
    pub profile: fn() -> Profile,
    pub monitors: Monitors,
    pub k: (usize, usize),
    pub cases: (u32, u32),
    pub nontrivial: fn(&Features, &JobSpec, &ConfigSpec, &JobRun) -> bool,
    pub classes: fn(&Features, &JobSpec, &ConfigSpec, &JobRun, &mut Report),
}

impl JobCheck {
    fn opts(&self, tier: Tier, shrinking: bool) -> RunOpts {
        let m = self.monitors;
        RunOpts {
            probes: m.grammar || m.per_iteration || m.alignment || m.loop_state || m.fifo || m.routing || m.placement,
            stamp: m.alignment || m.fifo || m.routing,
            match_links: m.links,
            record_links: m.routing,
            crash: None,
            watchdog: Some(watchdog(tier, shrinking)),
        }
    }

    pub fn apply(&self, job: &JobSpec, run: &JobRun, reference: &RefOut) -> Result<(), String> {
        let m = self.monitors;
        let g = mon::group(run);
        // a host panic makes every other observation meaningless: report it first
        for (h, o) in run.hosts.iter().enumerate() {
            if let crate::run::HostOutcome::Panicked(msg) = o {
                return Err(format!("host {h} panicked: {msg}; panics of the job: {:?}", run.ctx.panics.lock().unwrap()));
            }
        }
        if m.workers {
            mon::workers_done(run)?;
        }
        if m.links {
            mon::links_clean(run)?;
        }
        if m.grammar {
            mon::grammar(&g)?;
        }
        if m.sinks {
            check_sinks(run, reference)?;
        }
        if m.per_iteration {
            mon::per_iteration(&g, reference, &HashSet::new())?;
        }
        let edges: Vec<(u32, u32)> = run.edges.iter().map(|e| (e.0, e.1)).collect();
        if m.alignment {
            mon::iteration_alignment(&g, &edges)?;
        }
        if m.fifo {
            let bc: HashSet<u32> = run
                .edges
                .iter()
                .filter(|e| e.2 == "broadcast")
                .map(|e| e.0)
                .collect();
            mon::stamped_fifo(&g, &edges, &bc)?;
        }
        if m.placement {
            mon::placement(&g, &crate::reference::static_replication(job), &run.layout_cores)?;
        }
        if m.routing {
            let st = mon::routing(run)?;
            *run.routing_stats.borrow_mut() = Some(st);
        }
        if m.loop_state {
            mon::loop_state_alignment(&g, reference)?;
            // number of rounds: the loop-in probe saw exactly the reference's number of iterations
            // (checked by per_iteration when enabled; here through the grammar of the loop probe)
            let _ = job;
        }
        Ok(())
    }

    pub fn judge(
        &self,
        job: &JobSpec,
        cfg: &ConfigSpec,
        addr: AddrSeed,
        tier: Tier,
        shrinking: bool,
    ) -> Result<(Result<(), String>, Option<JobRun>), Case> {
        let Some(reference) = evaluate(job, &cfg.layout.cores(), cap(tier)) else {
            return Err(Case::Discard);
        };
        match run_spec(job, cfg, &self.opts(tier, shrinking), addr) {
            RunResult::Done(run) => {
                let r = self.apply(job, &run, &reference);
                Ok((r, Some(run)))
            }
            RunResult::Deadlock(d, _) => Ok((Err(format!("deadlock: {}", d.diagnosis)), None)),
            RunResult::Inconclusive(m) => Err(Case::Inconclusive(m)),
        }
    }

    pub fn run(&self, ctx: &Ctx, _mode: &str) -> Report {
        let mut report = Report::default();
        let profile = (self.profile)();
        let k = ctx.tier.pick(self.k.0, self.k.1);
        let cases = ctx.cases(self.cases.0, self.cases.1);
        let counter = std::cell::Cell::new(0u64);
        search(ctx, 1, cases, 60..400, &mut report, |choices, rep, shrinking| {
            let mut g = Gen::new(choices, &profile);
            let job = g.job();
            let feats = features(&job);
            let configs: Vec<ConfigSpec> = (0..k)
                .map(|_| {
                    let mut c = g.config(ctx.tier == Tier::Thorough, crate::gen::amplifying_iterate(&job.pipe.stages));
                    if false && feats.has_iterate && min_explicit_batch(&job.pipe.stages).map_or(false, |b| b < 256) {
                        // known finding F7: small batches around `iterate`; excluded by construction
                        c.batch = c.batch.or(Some(BatchSpec::Fixed(1024)));
                    }
                    c
                })
                .collect();
            rep.excluded += g.steered as u64;
            let mut nontrivial = None;
            for cfg in &configs {
                let n = counter.get();
                counter.set(n + 1);
                let addr = AddrSeed { shard: ctx.shard, job: n };
                match self.judge(&job, cfg, addr, ctx.tier, shrinking) {
                    Ok((Ok(()), run)) => {
                        if let Some(run) = run {
                            if (self.nontrivial)(&feats, &job, cfg, &run) {
                                nontrivial = Some(fingerprint(&(&job, cfg)));
                            }
                            (self.classes)(&feats, &job, cfg, &run, rep);
                        }
                    }
                    Ok((Err(message), _)) => {
                        return Case::Fail {
                            message,
                            replay: json!({"property": self.id, "job": job, "configs": [cfg]}),
                        }
                    }
                    Err(c) => return c,
                }
                rep.class_if(cfg.layout.is_remote(), "config:multi_host");
                rep.class_if(cfg.delays.is_some(), "config:delays");
                rep.class_if(matches!(cfg.batch, Some(b) if b.size() <= 8), "config:small_batches");
                rep.class("configs_run");
            }
            common_classes(&feats, rep);
            rep.sample(json!({"job": job, "config": configs[0]}));
            Case::Pass { nontrivial }
        });
        report
    }

    fn replay_n(&self, ctx: &Ctx, v: &Value, reps: u64) -> Result<String, String> {
        let job: JobSpec =
            serde_json::from_value(v["job"].clone()).map_err(|e| format!("bad replay file: {e}"))?;
        let configs: Vec<ConfigSpec> =
            serde_json::from_value(v["configs"].clone()).map_err(|e| format!("bad replay file: {e}"))?;
        let mut n = 0;
        for rep in 0..reps {
            for cfg in &configs {
                n += 1;
                let addr = AddrSeed { shard: 200 + ctx.shard, job: (rep * 16 + n) % 60000 };
                match self.judge(&job, cfg, addr, ctx.tier, false) {
                    Ok((Ok(()), _)) => {}
                    Ok((Err(m), _)) => return Err(m),
                    Err(Case::Fatal { message, .. }) => return Err(message),
                    Err(_) => {}
                }
            }
        }
        Ok(format!("{n} runs satisfied the oracle"))
    }

    pub fn replay(&self, ctx: &Ctx, v: &Value) -> Result<String, String> {
        self.replay_n(ctx, v, 10)
    }
}

pub fn common_classes(feats: &Features, rep: &mut Report) {
    rep.class_if(feats.has_loop, "job:loop");
    rep.class_if(feats.has_iterate, "job:iterate");
    rep.class_if(feats.iterate_simple_body, "job:iterate_with_body_in_the_iterate_block");
    rep.class_if(feats.nested_loop, "job:nested_loop");
    rep.class_if(feats.diamond, "job:diamond");
    rep.class_if(feats.multi_sink, "job:multi_sink");
    rep.class_if(feats.multi_source, "job:multi_source");
    rep.class_if(feats.has_join, "job:join");
    rep.class_if(feats.has_agg, "job:aggregation");
    rep.class_if(feats.has_window, "job:count_window");
    rep.class_if(feats.has_route, "job:route");
    rep.class_if(feats.has_broadcast, "job:broadcast");
    rep.class_if(feats.has_zip, "job:zip");
    rep.class_if(feats.side_input, "job:side_input");
    rep.class_if(feats.empty_source, "job:empty_source");
    rep.class_if(feats.window_in_loop, "job:count_window_inside_loop");
    rep.class_if(feats.agg_in_loop, "job:aggregation_inside_loop");
}

fn no_classes(_: &Features, _: &JobSpec, _: &ConfigSpec, _: &JobRun, _: &mut Report) {}

fn multi(cfg: &ConfigSpec) -> bool {
    cfg.layout.total_cores() >= 2
}

fn max_batches(run: &JobRun) -> u64 {
    run.ctx.link_counts.lock().unwrap().values().map(|v| v.0).max().unwrap_or(0)
}

// ---- the individual checks ------------------------------------------------------------------

pub fn c02() -> JobCheck {
    JobCheck {
        id: "C02",
        profile: || Profile {
            name: "c02",
            w_repart: 30,
            w_simple: 15,
            w_batch: 8,
            small_batches: true,
            pads: true,
            max_input: 800,
            ..Profile::base()
        },
        monitors: Monitors { links: true, fifo: true, ..Monitors::default() },
        k: (2, 3),
        cases: (300, 3000),
        nontrivial: |_f, _j, _c, run| max_batches(run) >= 3,
        classes: |_f, _j, _c, run, rep| {
            let lc = run.ctx.link_counts.lock().unwrap();
            rep.class_if(lc.values().any(|v| v.1), "run:tcp_link");
            rep.class_if(lc.values().any(|v| v.0 > 16), "run:link_over_16_batches");
            // several producer replicas of one host multiplexed on the connection to one remote host
            let mut mux: std::collections::HashMap<(u64, u64, u64, u64), HashSet<u64>> = Default::default();
            for ((from, ep), v) in lc.iter() {
                if v.1 {
                    mux.entry((from.block_id, from.host_id, ep.to.block_id, ep.to.host_id))
                        .or_default()
                        .insert(from.replica_id);
                }
            }
            rep.class_if(mux.values().any(|s| s.len() >= 2), "run:replicas_multiplexed_on_one_connection");
            let n: u64 = lc.values().map(|v| v.0).sum();
            *rep.extra.entry("batches_matched".into()).or_insert(json!(0u64)) =
                json!(rep.extra.get("batches_matched").and_then(|v| v.as_u64()).unwrap_or(0) + n);
        },
    }
}

pub fn c03() -> JobCheck {
    JobCheck {
        id: "C03",
        profile: || Profile {
            name: "c03",
            w_repart: 40,
            w_simple: 12,
            w_keyed_agg: 8,
            w_fork: 8,
            w_diamond: 10,
            w_with: 8,
            w_route: 8,
            w_broadcast: 6,
            w_replay: 2,
            w_iterate: 1,
            w_comb: [3, 1, 8],
            max_input: 500,
            ..Profile::base()
        },
        // `sinks`: that equal keys from both inputs of a join meet on one replica is judged through
        // the join results (the pre-aggregated side of a keyed join is not traceable element by element)
        monitors: Monitors { routing: true, sinks: true, ..Monitors::default() },
        k: (3, 4),
        cases: (300, 3000),
        nontrivial: |_f, _j, _c, run| {
            run.routing_stats
                .borrow()
                .as_ref()
                .map_or(false, |s| s.group_edges_with_2_keys_2_replicas >= 1 || s.multi_downstream >= 1)
        },
        classes: |_f, _j, _c, run, rep| {
            if let Some(s) = run.routing_stats.borrow().as_ref() {
                let mut add = |k: &str, v: u64| {
                    let e = rep.extra.entry(k.to_string()).or_insert(json!(0u64));
                    *e = json!(e.as_u64().unwrap_or(0) + v);
                };
                add("elements_traced_to_endpoints", s.elements);
                add("forward_deliveries_checked", s.forward);
                add("broadcast_deliveries_checked", s.broadcast);
                add("control_links_checked", s.control_links);
                rep.class_if(s.group_edges_with_2_keys_2_replicas >= 1, "run:group_by_edge_with_2_keys_2_replicas");
                rep.class_if(s.multi_downstream >= 1, "run:producer_with_2_downstream_blocks");
            }
        },
    }
}

pub fn c19_run() -> JobCheck {
    JobCheck {
        id: "C19",
        profile: || Profile { name: "c19run", w_repart: 34, w_diamond: 10, w_with: 8, w_replay: 5, w_iterate: 4, max_input: 60, ..Profile::base() },
        monitors: Monitors { placement: true, ..Monitors::default() },
        k: (3, 4),
        cases: (160, 1600),
        nontrivial: |f, _j, c, _r| c.layout.n_hosts() >= 2 && f.repartitions >= 2,
        classes: no_classes,
    }
}

pub fn c04() -> JobCheck {
    JobCheck {
        id: "C04",
        profile: || Profile {
            name: "c04",
            w_repart: 26,
            w_replay: 10,
            w_iterate: 8,
            w_diamond: 10,
            w_with: 10,
            w_batch: 6,
            small_batches: true,
            ..Profile::base()
        },
        monitors: Monitors { sinks: true, workers: true, ..Monitors::default() },
        k: (3, 4),
        cases: (300, 3000),
        nontrivial: |f, _j, _c, run| f.has_loop || f.diamond || f.empty_source || max_batches(run) > 16,
        classes: |_f, _j, _c, run, rep| {
            rep.class_if(max_batches(run) > 16, "run:link_over_16_batches");
        },
    }
}

pub fn c05() -> JobCheck {
    JobCheck {
        id: "C05",
        profile: || Profile { name: "c05", w_replay: 12, w_iterate: 5, w_window: 12, w_keyed_agg: 12, join_in_loop_quarters: 2, ..Profile::base() },
        monitors: Monitors { grammar: true, per_iteration: true, alignment: true, ..Monitors::default() },
        k: (2, 3),
        cases: (300, 3000),
        nontrivial: |f, _j, c, _r| f.has_loop || (multi(c) && f.repartitions >= 1),
        classes: no_classes,
    }
}

pub fn c07() -> JobCheck {
    JobCheck {
        id: "C07",
        profile: || Profile {
            name: "c07",
            w_keyed_agg: 30,
            w_global_agg: 14,
            w_replay: 7,
            w_iterate: 2,
            w_with: 2,
            w_route: 1,
            w_window: 0,
            ..Profile::base()
        },
        monitors: Monitors { sinks: true, per_iteration: true, grammar: true, ..Monitors::default() },
        k: (3, 4),
        cases: (300, 3000),
        nontrivial: |f, j, c, _r| f.has_agg && multi(c) && j.pipe.source.len() >= 4,
        classes: |f, j, _c, _r, rep| {
            rep.class_if(f.has_agg && f.has_loop, "agg:inside_or_next_to_loop");
            rep.class_if(f.has_agg && j.pipe.source.len() == 0, "agg:empty_input");
        },
    }
}

pub fn c08() -> JobCheck {
    JobCheck {
        id: "C08",
        profile: || Profile {
            name: "c08",
            w_diamond: 14,
            w_with: 22,
            w_comb: [0, 0, 10],
            w_replay: 3,
            w_iterate: 1,
            w_route: 1,
            w_window: 0,
            max_input: 500,
            join_in_loop_quarters: 2,
            ..Profile::base()
        },
        monitors: Monitors { sinks: true, per_iteration: true, ..Monitors::default() },
        k: (3, 5),
        cases: (300, 3000),
        nontrivial: |f, j, c, _r| f.has_join && multi(c) && j.pipe.source.len() >= 2,
        classes: no_classes,
    }
}

pub fn c09() -> JobCheck {
    JobCheck {
        id: "C09",
        profile: || Profile {
            name: "c09",
            w_fork: 12,
            w_diamond: 14,
            w_with: 8,
            w_route: 14,
            w_broadcast: 10,
            w_comb: [8, 4, 1],
            w_replay: 2,
            w_iterate: 1,
            prefer_iter_source: true,
            ..Profile::base()
        },
        monitors: Monitors { sinks: true, per_iteration: true, ..Monitors::default() },
        k: (3, 4),
        cases: (300, 3000),
        nontrivial: |f, j, _c, _r| {
            (f.diamond || f.has_route || f.multi_sink || f.has_broadcast || f.has_zip) && j.pipe.source.len() >= 10
        },
        classes: no_classes,
    }
}

pub fn c10() -> JobCheck {
    JobCheck {
        id: "C10",
        profile: || Profile {
            name: "c10",
            w_replay: 30,
            w_iterate: 22,
            w_fork: 1,
            w_route: 1,
            w_window: 0,
            max_input: 400,
            w_delay: [1, 2, 2, 6],
            delay_quarters: 3,
            ..Profile::base()
        },
        monitors: Monitors { sinks: true, per_iteration: true, loop_state: true, grammar: true, ..Monitors::default() },
        k: (3, 5),
        cases: (260, 2600),
        nontrivial: |f, _j, c, _r| f.has_loop && multi(c),
        classes: |_f, _j, _c, run, rep| {
            let states = run.probes.iter().filter(|p| p.state.is_some()).count() as u64;
            let e = rep.extra.entry("state_reads_checked".into()).or_insert(json!(0u64));
            *e = json!(e.as_u64().unwrap_or(0) + states);
        },
    }
}

pub fn c11() -> JobCheck {
    JobCheck {
        id: "C11",
        profile: || Profile {
            name: "c11",
            w_replay: 30,
            w_iterate: 18,
            w_with: 30,
            w_fork: 1,
            w_route: 1,
            w_window: 0,
            w_batch: 8,
            small_batches: true,
            max_input: 300,
            ..Profile::base()
        },
        monitors: Monitors {
            sinks: true,
            per_iteration: true,
            grammar: true,
            workers: true,
            ..Monitors::default()
        },
        k: (3, 5),
        cases: (260, 2600),
        nontrivial: |f, _j, _c, _r| f.side_input,
        classes: no_classes,
    }
}

fn mk(id: &'static str, rule: &'static str, assumptions: &'static [&'static str], f: fn() -> JobCheck) -> CheckDef {
    // the function pointers below cannot capture: dispatch on the id
    let _ = f;
    CheckDef {
        id,
        level: "exploration",
        rule,
        assumptions,
        modes: |t| {
            vec![("main", t.pick(8, 14))]
        },
        run: |ctx, mode| {
            if mode == "main" {
                by_id(&ctx.id).run(ctx, mode)
            } else {
                super::c06::run_other(ctx, mode)
            }
        },
        replay: |ctx, v| {
            if v.get("tsjob").is_some() || v.get("choices").is_some() {
                super::c06::replay_ts(ctx, v)
            } else {
                by_id(&ctx.id).replay(ctx, v)
            }
        },
    }
}

pub fn by_id(id: &str) -> JobCheck {
    match id {
        "C02" => c02(),
        "C03" => c03(),
        "C04" => c04(),
        "C05" => c05(),
        "C07" => c07(),
        "C08" => c08(),
        "C09" => c09(),
        "C10" => c10(),
        "C11" => c11(),
        _ => panic!("no job check {id}"),
    }
}

const COMMON: &[&str] = &[
    "thread and network schedules are sampled (OS nondeterminism + seeded delay injection), not enumerated",
    "hosts are simulated as threads of one process over real loopback TCP",
    "generated programs respect the documented preconditions of the operators (DESIGN.md §3.2)",
];

pub fn defs() -> Vec<CheckDef> {
    let mut v = defs0();
    for d in v.iter_mut() {
        match d.id {
            "C04" => {
                d.modes = |t| vec![("main", t.pick(8, 14)), ("kf", 1)];
                d.run = |ctx, mode| {
                    if mode == "kf" {
                        c04_known(ctx)
                    } else {
                        by_id(&ctx.id).run(ctx, mode)
                    }
                };
            }
            "C09" => {
                d.modes = |t| vec![("main", t.pick(8, 12)), ("zip", t.pick(3, 4)), ("zip_loop", t.pick(3, 4))];
                d.run = |ctx, mode| {
                    if mode == "zip" {
                        c09_zip(ctx)
                    } else if mode == "zip_loop" {
                        c09_zip_loop(ctx)
                    } else {
                        by_id(&ctx.id).run(ctx, mode)
                    }
                };
                d.replay = |ctx, v| {
                    if v.get("zip_loop").is_some() {
                        let choices: Vec<u16> = serde_json::from_value(v["choices"].clone()).map_err(|e| e.to_string())?;
                        for i in 0..10 {
                            if let Case::Fail { message, .. } = zip_loop_case(ctx, &choices, 61_000 + i, false) {
                                return Err(message);
                            }
                        }
                        Ok("10 runs paired one-to-one within each round".into())
                    } else if v.get("zip").is_some() {
                        let choices: Vec<u16> = serde_json::from_value(v["choices"].clone()).map_err(|e| e.to_string())?;
                        for i in 0..10 {
                            if let Case::Fail { message, .. } = zip_case(ctx, &choices, 60_000 + i, false) {
                                return Err(message);
                            }
                        }
                        Ok("10 runs paired one-to-one".into())
                    } else {
                        by_id(&ctx.id).replay(ctx, v)
                    }
                };
            }
            "C05" => {
                d.modes = |t| vec![("main", t.pick(8, 12)), ("zip_loop", t.pick(2, 4))];
                d.run = |ctx, mode| {
                    if mode == "zip_loop" {
                        c09_zip_loop(ctx)
                    } else {
                        by_id(&ctx.id).run(ctx, mode)
                    }
                };
                d.replay = |ctx, v| {
                    if v.get("zip_loop").is_some() {
                        let choices: Vec<u16> = serde_json::from_value(v["choices"].clone()).map_err(|e| e.to_string())?;
                        for i in 0..10 {
                            if let Case::Fail { message, .. } = zip_loop_case(ctx, &choices, 61_000 + i, false) {
                                return Err(message);
                            }
                        }
                        Ok("10 runs paired one-to-one within each round".into())
                    } else {
                        by_id(&ctx.id).replay(ctx, v)
                    }
                };
            }
            "C03" => {
                d.modes = |t| vec![("main", t.pick(8, 14)), ("xproc", t.pick(4, 6))];
                d.run = |ctx, mode| {
                    if mode == "xproc" {
                        // group-by routing must be the same function of the key in every PROCESS
                        super::c01::run_xproc(ctx, &(by_id("C03").profile)())
                    } else {
                        by_id(&ctx.id).run(ctx, mode)
                    }
                };
                d.replay = |ctx, v| {
                    if v.get("xproc").is_some() {
                        super::c01::replay(ctx, v)
                    } else {
                        by_id(&ctx.id).replay(ctx, v)
                    }
                };
            }
            "C07" => d.modes = |t| vec![("main", t.pick(8, 12)), ("fold_ts", t.pick(2, 4)), ("fold_ts_loop", t.pick(2, 4))],
            "C08" => d.modes = |t| vec![("main", t.pick(8, 12)), ("interval", t.pick(3, 4))],
            _ => {}
        }
    }
    v
}

/// C09, zip of two streams with arbitrary arrival order: a validity predicate instead of equality.
fn zip_case(ctx: &Ctx, choices: &[u16], n: u64, shrinking: bool) -> Case {
    use crate::dynop::{erase, DStream};
    use crate::gen::Chooser;
    use crate::obs::JobCtx;
    use crate::run::{run_job, BuildFn, HostOutcome, JobOutcome};
    use std::sync::Arc;
    const OFF: i64 = 1_000_000;
    let mut ch = Chooser::new(choices);
    let na = [0usize, 1, 7, 60, 400][ch.below(5)] + ch.below(5);
    let nb = [0usize, 1, 7, 60, 400][ch.below(5)] + ch.below(5);
    let (par_a, par_b) = (ch.flag(1, 2), ch.flag(1, 2));
    let (sh_a, sh_b) = (ch.flag(1, 3), ch.flag(1, 3));
    let slow_b = ch.flag(1, 3);
    // both inputs re-partitioned (differently) into blocks with an explicit replication
    let repart: Option<Repl> = match ch.below(4) {
        0 => Some(Repl::Limited(2 + ch.below(3) as u8)),
        1 => Some(Repl::Host),
        _ => None,
    };
    let data: Vec<u16> = (0..24).map(|_| ch.next()).collect();
    let cfg = Gen::new(&data, &Profile::base()).config(false, false);
    let sequential = !par_a && !par_b && !sh_a && !sh_b && repart.is_none();
    let batch = cfg.batch;
    let build: BuildFn<Option<Vec<i64>>> = Arc::new(move |env, _| {
        let mk = |n: usize, off: i64, par: bool, sh: bool, slow: bool| -> DStream<i64> {
            let v: Vec<i64> = (0..n as i64).map(|i| off + i).collect();
            let s: DStream<i64> = if par {
                let v = Arc::new(v);
                erase(env.stream_par_iter(move |id: u64, k: u64| {
                    let v = v.clone();
                    let mut i = id as usize;
                    std::iter::from_fn(move || {
                        let r = v.get(i).copied();
                        i += k as usize;
                        r
                    })
                }))
            } else {
                erase(env.stream_iter(v.into_iter()))
            };
            let s = match batch {
                Some(b) => s.batch_mode(b.to_mode()),
                None => s,
            };
            let s = if slow {
                erase(s.map(|x: i64| {
                    if x % 16 == 0 {
                        std::thread::sleep(std::time::Duration::from_micros(300));
                    }
                    x
                }))
            } else {
                s
            };
            if sh || par {
                // zip needs inputs with equal replication: shuffle parallel inputs
                erase(s.shuffle())
            } else {
                s
            }
        };
        let a = mk(na, 0, par_a, sh_a, false);
        let b = mk(nb, OFF, par_b, sh_b, slow_b);
        // forward inputs of zip must have the same replication
        let (a, b) = if (par_a || sh_a) != (par_b || sh_b) { (erase(a.shuffle()), erase(b.shuffle())) } else { (a, b) };
        let (a, b) = match repart {
            Some(r) => (
                erase(a.repartition_by(r.to_engine(), |x: &i64| *x as u64)),
                erase(b.repartition_by(r.to_engine(), |_x: &i64| 0u64)),
            ),
            None => (a, b),
        };
        let out = a.zip(b).map(|(x, y)| x * 4 * OFF + y).collect_vec();
        Box::new(move || out.get())
    });
    let replay = json!({"property": "C09", "zip": {"na": na, "nb": nb, "par": [par_a, par_b], "shuffle": [sh_a, sh_b], "repartition": repart}, "configs": [cfg], "choices": choices});
    let jctx = JobCtx::new(cfg.delays.clone());
    let hosts = match run_job(&cfg.layout, AddrSeed { shard: ctx.shard, job: n }, jctx, build, watchdog(ctx.tier, shrinking)) {
        JobOutcome::Finished(h) => h,
        JobOutcome::Deadlock(d) => return Case::Fail { message: format!("deadlock: {}", d.diagnosis), replay },
        JobOutcome::Inconclusive(m) => return Case::Inconclusive(m),
    };
    let mut pairs = Vec::new();
    for (h, o) in hosts.into_iter().enumerate() {
        match o {
            HostOutcome::Done(Some(v)) => pairs.extend(v.into_iter().map(|p| (p / (4 * OFF), p % (4 * OFF)))),
            HostOutcome::Done(None) => {}
            HostOutcome::Panicked(m) => return Case::Fail { message: format!("host {h} panicked: {m}"), replay },
        }
    }
    let fail = |m: String| Case::Fail { message: m, replay: replay.clone() };
    if pairs.len() != na.min(nb) {
        return fail(format!("zip of {na} and {nb} elements produced {} pairs, expected min = {}", pairs.len(), na.min(nb)));
    }
    let mut xs: Vec<i64> = pairs.iter().map(|p| p.0).collect();
    let mut ys: Vec<i64> = pairs.iter().map(|p| p.1).collect();
    xs.sort();
    ys.sort();
    if xs.windows(2).any(|w| w[0] == w[1]) || ys.windows(2).any(|w| w[0] == w[1]) {
        return fail("zip used an element twice".into());
    }
    if xs.iter().any(|x| *x < 0 || *x >= na as i64) || ys.iter().any(|y| *y < OFF || *y >= OFF + nb as i64) {
        return fail("zip produced a pair with an element that is not in its inputs (or from the wrong side)".into());
    }
    if sequential && pairs.iter().enumerate().any(|(i, p)| p.0 != i as i64 || p.1 != OFF + i as i64) {
        return fail("both inputs are sequential: zip must pair positionally".into());
    }
    Case::Pass { nontrivial: if na != nb && na.min(nb) >= 1 { Some(fingerprint(&(na, nb, par_a, par_b, sh_a, sh_b, &cfg))) } else { None } }
}

fn c09_zip(ctx: &Ctx) -> Report {
    let mut report = Report::default();
    let counter = std::cell::Cell::new(0u64);
    search(ctx, 5, ctx.cases(240, 6000), 30..60, &mut report, |choices, rep, shrinking| {
        let n = counter.get();
        counter.set(n + 1);
        let c = zip_case(ctx, choices, 20_000 + n, shrinking);
        if let Case::Pass { .. } = c {
            rep.class("zip_jobs");
        }
        c
    });
    report
}

#[derive(Clone, Debug, Default, serde::Serialize, serde::Deserialize)]
struct ZipLoopState {
    round: i64,
    cur: Vec<(i64, i64)>,
    rounds: Vec<Vec<(i64, i64)>>,
}

/// C09 / C05, zip inside a `replay` body whose two sides change length from round to round (one side
/// may be a side input from outside the loop). Every element is tagged with the round in which it
/// entered the body, so a pair made with a leftover of an earlier round is recognisable.
fn zip_loop_case(ctx: &Ctx, choices: &[u16], n: u64, shrinking: bool) -> Case {
    use crate::dynop::{erase, DStream};
    use crate::gen::Chooser;
    use crate::obs::JobCtx;
    use crate::run::{run_job, BuildFn, HostOutcome, JobOutcome};
    use std::sync::Arc;
    const OFF: i64 = 1_000_000;
    const TAG: i64 = 10_000;
    let mut ch = Chooser::new(choices);
    let len = ([6usize, 20, 60, 200][ch.below(4)] + ch.below(5)) as i64;
    let rounds = 2 + ch.below(4);
    // per round (cyclic): how many of the `len` elements each side keeps
    let la: Vec<i64> = (0..3).map(|_| ch.range(0, len)).collect();
    let lb: Vec<i64> = (0..3).map(|_| ch.range(0, len)).collect();
    let outside_b = ch.flag(1, 3);
    let slow = ch.below(3); // 0 none, 1 side a, 2 side b
    let data: Vec<u16> = (0..24).map(|_| ch.next()).collect();
    let cfg = Gen::new(&data, &Profile::base()).config(false, false);
    let batch = cfg.batch;
    let (la2, lb2) = (la.clone(), lb.clone());
    let build: BuildFn<Option<Vec<ZipLoopState>>> = Arc::new(move |env, _| {
        let src = env.stream_par_iter(move |id: u64, k: u64| (0..len).filter(move |x| (*x as u64) % k == id));
        let src = match batch {
            Some(b) => src.batch_mode(b.to_mode()),
            None => src,
        };
        let side: Option<DStream<i64>> = if outside_b {
            // a side input from outside the loop: the same lb[0] elements in every round
            Some(erase(env.stream_iter((0..lb2[0]).map(|x| OFF + x)).shuffle()))
        } else {
            None
        };
        let (la3, lb3) = (la2.clone(), lb2.clone());
        let out = src
            .replay(
                rounds,
                ZipLoopState::default(),
                move |s, state| {
                    let pace = |s: DStream<i64>, on: bool| -> DStream<i64> {
                        if on {
                            erase(s.map(|x: i64| {
                                if x % 4 == 0 {
                                    std::thread::sleep(std::time::Duration::from_micros(200));
                                }
                                x
                            }))
                        } else {
                            s
                        }
                    };
                    let mut parts = s.split(2);
                    let sb = parts.pop().unwrap();
                    let sa = parts.pop().unwrap();
                    let st = state.clone();
                    let la4 = la3.clone();
                    let a: DStream<i64> = erase(sa.filter_map(move |x: i64| {
                        let r = st.get().round;
                        if x < la4[(r % 3) as usize] {
                            Some(r * TAG + x)
                        } else {
                            None
                        }
                    }));
                    let a = pace(a, slow == 1);
                    let b: DStream<i64> = match side {
                        Some(side) => {
                            // the second branch of the split is not needed
                            sb.for_each(|_| {});
                            side
                        }
                        None => {
                            let st = state.clone();
                            let lb4 = lb3.clone();
                            erase(sb.filter_map(move |x: i64| {
                                let r = st.get().round;
                                if x < lb4[(r % 3) as usize] {
                                    Some(OFF + r * TAG + x)
                                } else {
                                    None
                                }
                            }))
                        }
                    };
                    let b = pace(b, slow == 2);
                    // the body of `replay` must return the element type it received: pack the pair
                    a.zip(b).map(|(x, y): (i64, i64)| x * 4 * OFF + y)
                },
                |d: &mut Vec<(i64, i64)>, p: i64| d.push((p / (4 * OFF), p % (4 * OFF))),
                |st: &mut ZipLoopState, d: Vec<(i64, i64)>| st.cur.extend(d),
                |st: &mut ZipLoopState| {
                    let cur = std::mem::take(&mut st.cur);
                    st.rounds.push(cur);
                    st.round += 1;
                    true
                },
            )
            .collect_vec();
        Box::new(move || out.get())
    });
    let replay = json!({"property": ctx.id, "zip_loop": {"len": len, "rounds": rounds, "keep_a": la, "keep_b": lb, "side_input_from_outside": outside_b, "slow_side": slow}, "configs": [cfg], "choices": choices});
    let jctx = JobCtx::new(cfg.delays.clone());
    let hosts = match run_job(&cfg.layout, AddrSeed { shard: ctx.shard, job: n }, jctx, build, watchdog(ctx.tier, shrinking)) {
        JobOutcome::Finished(h) => h,
        JobOutcome::Deadlock(d) => return Case::Fail { message: format!("deadlock: {}", d.diagnosis), replay },
        JobOutcome::Inconclusive(m) => return Case::Inconclusive(m),
    };
    let mut states = Vec::new();
    for (h, o) in hosts.into_iter().enumerate() {
        match o {
            HostOutcome::Done(Some(v)) => states.extend(v),
            HostOutcome::Done(None) => {}
            HostOutcome::Panicked(m) => return Case::Fail { message: format!("host {h} panicked: {m}"), replay },
        }
    }
    let fail = |m: String| Case::Fail { message: m, replay: replay.clone() };
    if states.len() != 1 {
        return fail(format!("the loop emitted {} final states (expected 1)", states.len()));
    }
    let st = &states[0];
    if st.rounds.len() != rounds {
        return fail(format!("{} rounds were folded into the state, expected {rounds}", st.rounds.len()));
    }
    let mut unequal = 0;
    for (k, pairs) in st.rounds.iter().enumerate() {
        let na = la[k % 3];
        let nb = if outside_b { lb[0] } else { lb[k % 3] };
        if na != nb {
            unequal += 1;
        }
        if pairs.len() as i64 != na.min(nb) {
            return fail(format!("round {k}: zip of {na} and {nb} elements produced {} pairs, expected min = {}", pairs.len(), na.min(nb)));
        }
        let mut xs: Vec<i64> = pairs.iter().map(|p| p.0).collect();
        let mut ys: Vec<i64> = pairs.iter().map(|p| p.1).collect();
        xs.sort();
        ys.sort();
        if xs.windows(2).any(|w| w[0] == w[1]) || ys.windows(2).any(|w| w[0] == w[1]) {
            return fail(format!("round {k}: zip used an element twice"));
        }
        let k = k as i64;
        if let Some(x) = xs.iter().find(|x| **x / TAG != k || **x % TAG >= na) {
            return fail(format!("round {k}: a pair contains the left element {} of round {} (carried over from another round, or not in the input)", x % TAG, x / TAG));
        }
        let bad_b = ys.iter().find(|y| {
            let y = **y - OFF;
            if outside_b {
                y < 0 || y >= nb
            } else {
                y / TAG != k || y % TAG >= nb
            }
        });
        if let Some(y) = bad_b {
            return fail(format!("round {k}: a pair contains the right element {} that is not in this round's input", y - OFF));
        }
    }
    Case::Pass { nontrivial: if unequal >= 2 { Some(fingerprint(&(len, rounds, &la, &lb, outside_b, slow, &cfg))) } else { None } }
}

fn c09_zip_loop(ctx: &Ctx) -> Report {
    let mut report = Report::default();
    let counter = std::cell::Cell::new(0u64);
    search(ctx, 6, ctx.cases(160, 4000), 30..60, &mut report, |choices, rep, shrinking| {
        let n = counter.get();
        counter.set(n + 1);
        let c = zip_loop_case(ctx, choices, 30_000 + n, shrinking);
        if let Case::Pass { .. } = c {
            rep.class("zip_in_loop_jobs");
        }
        c
    });
    report
}

/// Sub-run for the open known finding F7: the recorded job is run under the watchdog; a deadlock
/// with an `Iterate` replica parked in a send reproduces the finding.
fn c04_known(ctx: &Ctx) -> Report {
    let mut report = Report::default();
    let known = load_known(&ctx.verif_dir);
    if !is_open(&known, "C04", "iterate-cyclic-backpressure-deadlock") {
        return report;
    }
    let path = ctx.verif_dir.join("known").join("C04-iterate-backpressure.json");
    let Ok(txt) = std::fs::read_to_string(&path) else { return report };
    let Ok(v) = serde_json::from_str::<Value>(&txt) else { return report };
    let (Ok(job), Ok(cfgs)) = (
        serde_json::from_value::<JobSpec>(v["job"].clone()),
        serde_json::from_value::<Vec<ConfigSpec>>(v["configs"].clone()),
    ) else {
        return report;
    };
    let opts = RunOpts {
        watchdog: Some(crate::run::Watchdog {
            quiescence: std::time::Duration::from_secs(4),
            budget: std::time::Duration::from_secs(60),
        }),
        ..RunOpts::default()
    };
    for i in 0..3 {
        if let RunResult::Deadlock(d, _) = run_spec(&job, &cfgs[0], &opts, AddrSeed { shard: 219, job: i }) {
            if d.parked.iter().any(|p| p.1 == crate::obs::ParkOp::Send) {
                report.known.insert(
                    "iterate-cyclic-backpressure-deadlock".into(),
                    format!(
                        "still reproduces on known/C04-iterate-backpressure.json: {} workers parked, e.g. {}",
                        d.parked.len(),
                        d.diagnosis.lines().nth(1).unwrap_or("").trim()
                    ),
                );
                *report.known_hits.entry("iterate-cyclic-backpressure-deadlock".into()).or_default() += 1;
                break;
            }
        }
    }
    report
}

fn defs0() -> Vec<CheckDef> {
    vec![
        mk("C02", "random jobs biased to repartitioning, small batches and padded (up to 70 kB) elements, 2-3 deployments each; observer hook records every batch at NetworkSender::send and matches every received batch against the head of its link's queue (kinds, timestamps, element digests), all queues empty at the end; stamped sequence numbers arrive in order and on one consumer only; non-trivial = some link carried >= 3 batches; distinct = hash of (job, configuration)", COMMON, c02),
        mk("C03", "random jobs dense in repartitioning (forward incl. narrowing, group_by, repartition_by into Limited/Host/One blocks, shuffle, broadcast, route, split with several downstream blocks, hash- and broadcast-shipped joins), replica counts equal/coprime/1/heterogeneous; every element is stamped by the last operator of its block and traced, through the send hook, to the endpoints it was enqueued to; oracle per downstream block: forward = one endpoint, the same-index replica when it exists; group-by = one endpoint, a function of the key alone across all producers and both join inputs; shuffle = one; broadcast = every replica once; route = exactly one replica of the first matching route's block, nothing for unmatched elements; every FlushAndRestart and Terminate a producer emits is sent to every connected endpoint; that equal keys of both inputs of a join (incl. a two-phase aggregation joined with a group_by stream) meet on one replica is additionally judged through the join results at the sinks; non-trivial = a group-by edge with >= 2 keys and >= 2 consumer replicas, or a producer with >= 2 downstream blocks", COMMON, c03),
        mk("C04", "random jobs biased to loops, side inputs, diamonds, empty inputs and small batches; oracle: every host's execute_blocking returns, every worker that started ended without panic, every sink handle yields its complete result on exactly the prescribed hosts; a deadlock is declared by the quiescence watchdog (no engine event for 10 s / 20 s with all live workers parked in a channel operation or flat CPU time); non-trivial = loop, diamond, empty source or a link with > 16 batches", COMMON, c04),
        mk("C05", "random jobs with a probe after every stage (incl. inside loop bodies); oracle: (a) each replica's sequence at each probe matches ((Item|Timestamped|Watermark|FlushBatch)* FlushAndRestart)+ Terminate, (b) elements stamped in producer iteration k are observed in consumer iteration k on pass-through edges, (c) per probe and iteration the multiset over all replicas equals the reference interpreter's round (all results before the marker, nothing carried over) - loop bodies contain folds, keyed aggregations, joins whose inputs change from round to round, count windows and zips with order-independent results; a second mode (zip_loop) runs replay(2-5 rounds) bodies that zip two branches of the loop stream (or one branch and a side input from outside) whose lengths change from round to round, every element tagged with the round it entered the body in: per round exactly min(|a|,|b|) pairs, made only of this round's elements, none used twice; non-trivial = loop present, or >= 2 replicas and a repartitioning edge (zip_loop: >= 2 rounds with sides of unequal length)", COMMON, c05),
        mk("C07", "random jobs dense in the 10 keyed and 4 global aggregation forms (top level, behind shuffles, inside replay bodies), key counts 1..64, skewed/empty inputs; oracle: per probe and iteration the observed multiset equals the sequential fold per key (one result per occurring key, none for an empty input), hence two-phase forms equal shuffle-then-aggregate forms; sinks equal the reference; non-trivial = aggregation, >= 2 replicas, >= 4 input elements", COMMON, c07),
        mk("C08", "random jobs dense in joins (6 algorithms x inner/left/outer, diamonds = self joins, second sources incl. empty ones, inside loops), delay injection biasing which side arrives/ends first; oracle: join output multiset equals the nested-loop relational join at the probe after the join and at every sink; non-trivial = join, >= 2 replicas, >= 2 elements", COMMON, c08),
        mk("C09", "random jobs dense in split (fork/diamond), route (1-4 overlapping, non exhaustive predicates), merge, broadcast and zip of sequential streams; oracle: per probe the observed multiset equals the reference (every split branch sees the whole stream, route = first matching predicate, merge = multiset union, broadcast = once per downstream replica, zip positional); a second mode zips two streams with arbitrary arrival order (parallel sources, shuffles, inputs re-partitioned into Limited(n)/Host blocks, a slow side) and checks the validity predicate: exactly min(|a|,|b|) pairs, each pairing one element of each side, none used twice, positional when both are sequential; a third mode (zip_loop) does the same per round for a zip inside a replay body whose sides change length from round to round (elements tagged with their round); non-trivial = one of these operators and >= 10 elements (jobs), unequal non-empty sides (zip mode), >= 2 rounds with unequal sides (zip_loop)", COMMON, c09),
        mk("C10", "random jobs dense in replay/iterate (bounds 0-6, conditions stopping early, nested replay, bodies with shuffles/aggregations/joins), mostly multi-host, delay injection; oracle: a probe at the head of every loop body reads the state handle for every element: it must equal the sequential loop's state of the previous round; per-round multisets at every body probe, number of rounds, final state and output equal the reference; non-trivial = loop and >= 2 replicas", COMMON, c10),
        mk("C11", "random loop jobs whose body merges/joins/zips the loop stream with a stream from outside (side sizes 0..300, small batches, 0-6 rounds); oracle: per round the multiset observed after the combining operator equals the reference (side input complete, identical in every round), the job terminates, each replica's probe sees one Terminate, every worker ends; non-trivial = side input inside a loop", COMMON, c11),
    ]
}
