//! C19 — all hosts derive the same, well-formed execution graph. The graph is obtained per host id
//! through the `verif_execution_graph` hook (scheduler + topology, no worker is started).
use std::collections::{BTreeMap, BTreeSet, HashMap};

use renoir::verif::{DumpReplication, GraphDump, Loc};
use renoir::StreamContext;
use serde_json::{json, Value};

use crate::build::{BuildOpts, Builder};
use crate::framework::*;
use crate::gen::{Gen, Profile};
use crate::run::{host_configs, AddrSeed, Layout};
use crate::spec::*;

use super::CheckDef;

pub fn dumps(job: &JobSpec, layout: &Layout) -> Result<Vec<GraphDump>, String> {
    let configs = host_configs(layout, AddrSeed { shard: 0, job: 0 });
    let mut out = Vec::new();
    for cfg in configs {
        let job = job.clone();
        let r = std::panic::catch_unwind(std::panic::AssertUnwindSafe(move || {
            let env = StreamContext::new(cfg);
            let mut b = Builder::new(&env, BuildOpts::default());
            b.job(&job);
            drop(b);
            env.verif_execution_graph()
        }));
        match r {
            Ok(d) => out.push(d),
            Err(e) => return Err(format!("building the execution graph panicked: {}", crate::run::panic_msg(&e))),
        }
    }
    Ok(out)
}

fn expected_replicas(r: DumpReplication, block: u64, cores: &[u64]) -> Vec<Loc> {
    let mut v = Vec::new();
    let mut push = |h: usize, n: u64| {
        for i in 0..n {
            v.push(Loc { block_id: block, host_id: h as u64, replica_id: i });
        }
    };
    match r {
        DumpReplication::Unlimited => cores.iter().enumerate().for_each(|(h, &c)| push(h, c)),
        DumpReplication::Limited(n) => {
            let mut left = n;
            for (h, &c) in cores.iter().enumerate() {
                let k = left.min(c);
                push(h, k);
                left -= k;
            }
        }
        DumpReplication::Host => cores.iter().enumerate().for_each(|(h, _)| push(h, 1)),
        DumpReplication::One => push(0, 1),
    }
    v
}

/// Returns Err((clause, message)).
pub fn check_graph(ds: &[GraphDump], layout: &Layout) -> Result<(), (String, String)> {
    let fail = |c: &str, m: String| Err((c.to_string(), m));
    let cores = layout.cores();
    // (1) equality across hosts
    for d in &ds[1..] {
        let (a, b) = (&ds[0], d);
        if a.blocks != b.blocks {
            return fail("hosts_differ", format!("host 0 and host {} derive different replicas/global ids", b.host_id));
        }
        if a.links != b.links {
            return fail("hosts_differ", format!("host 0 and host {} derive different links", b.host_id));
        }
        if a.demux_addresses != b.demux_addresses {
            return fail("hosts_differ", format!("host 0 and host {} derive different endpoint addresses", b.host_id));
        }
        if a.job_edges != b.job_edges {
            return fail("hosts_differ", format!("host 0 and host {} derive different job edges", b.host_id));
        }
    }
    let d = &ds[0];
    // (2) placement, (3) global ids
    let mut replicas: HashMap<u64, Vec<Loc>> = HashMap::new();
    for b in &d.blocks {
        let exp = expected_replicas(b.replication, b.block_id, &cores);
        let got: Vec<Loc> = b.replicas.iter().map(|r| r.0).collect();
        if got != exp {
            return fail(
                "placement",
                format!("block {} declared {:?} on cores {:?}: replicas {:?}, expected {:?}", b.block_id, b.replication, cores, got, exp),
            );
        }
        let ids: BTreeSet<u64> = b.replicas.iter().map(|r| r.1).collect();
        if ids.len() != got.len() || ids.iter().next_back().map_or(false, |m| *m as usize != got.len() - 1) {
            return fail(
                "global_ids",
                format!("block {}: global ids {:?} are not a bijection onto 0..{}", b.block_id, b.replicas.iter().map(|r| r.1).collect::<Vec<_>>(), got.len()),
            );
        }
        let meta: BTreeSet<Loc> = b.replicas_in_metadata_order.iter().cloned().collect();
        if meta.len() != got.len() || meta != got.iter().cloned().collect() {
            return fail("placement", format!("block {}: the replica list handed to the operators differs from the placement", b.block_id));
        }
        replicas.insert(b.block_id, got);
    }
    // (4) links per job edge
    let only_one: HashMap<u64, bool> = d.blocks.iter().map(|b| (b.block_id, b.is_only_one_strategy)).collect();
    let mut links: BTreeMap<(u64, u64), Vec<(Loc, Loc)>> = BTreeMap::new();
    for l in &d.links {
        links.entry((l.from.block_id, l.to.block_id)).or_default().push((l.from, l.to));
    }
    for &(from, to, fragile) in &d.job_edges {
        let (Some(fr), Some(tr)) = (replicas.get(&from), replicas.get(&to)) else {
            return fail("links", format!("job edge {from}->{to} refers to an unknown block"));
        };
        let ls = links.get(&(from, to)).cloned().unwrap_or_default();
        let set: BTreeSet<(Loc, Loc)> = ls.iter().cloned().collect();
        if set.len() != ls.len() {
            return fail("links", format!("edge {from}->{to}: a link appears twice"));
        }
        if only_one.get(&from).copied().unwrap_or(false) || fragile {
            for p in fr {
                let cons: Vec<Loc> = ls.iter().filter(|l| l.0 == *p).map(|l| l.1).collect();
                let same = tr.iter().find(|c| c.host_id == p.host_id && c.replica_id == p.replica_id);
                if cons.len() != 1 {
                    return fail(
                        "forward_one_consumer",
                        format!("forward edge {from}->{to} ({} -> {} replicas): producer h{}r{} has {} consumers, expected exactly one", fr.len(), tr.len(), p.host_id, p.replica_id, cons.len()),
                    );
                }
                if let Some(s) = same {
                    if cons[0] != *s {
                        return fail(
                            "forward_same_index",
                            format!("forward edge {from}->{to}: producer h{}r{} is linked to h{}r{} although the same-index replica exists", p.host_id, p.replica_id, cons[0].host_id, cons[0].replica_id),
                        );
                    }
                }
            }
            if ls.iter().any(|l| !fr.contains(&l.0) || !tr.contains(&l.1)) {
                return fail("links", format!("edge {from}->{to}: link between replicas that do not exist"));
            }
        } else {
            let exp: BTreeSet<(Loc, Loc)> = fr.iter().flat_map(|p| tr.iter().map(move |c| (*p, *c))).collect();
            if set != exp {
                return fail(
                    "all_to_all",
                    format!("edge {from}->{to}: {} links, expected all {} x {} pairs", set.len(), fr.len(), tr.len()),
                );
            }
        }
    }
    let edge_set: BTreeSet<(u64, u64)> = d.job_edges.iter().map(|e| (e.0, e.1)).collect();
    if links.keys().any(|k| !edge_set.contains(k)) {
        return fail("links", "links between blocks that are not connected in the job graph".into());
    }
    // (5) addresses
    if let Layout::Hosts(_) = layout {
        let mut seen: HashMap<(String, u16), (u64, u64, u64)> = HashMap::new();
        let addr: HashMap<(u64, u64, u64), (String, u16)> = d.demux_addresses.iter().cloned().collect();
        for (k, a) in &d.demux_addresses {
            if let Some(o) = seen.insert(a.clone(), *k) {
                return fail("address_collision", format!("endpoints {o:?} and {k:?} share the address {a:?}"));
            }
            let want = format!(".{}", k.1 + 1);
            if !a.0.ends_with(&want) {
                return fail("address_host", format!("endpoint {k:?} got the address {a:?}, not on the consumer's host"));
            }
        }
        for l in &d.links {
            if l.from.host_id != l.to.host_id {
                let k = (l.to.block_id, l.to.host_id, l.from.block_id);
                if !addr.contains_key(&k) {
                    return fail("address_missing", format!("remote link {:?} -> {:?} has no endpoint address", l.from, l.to));
                }
            }
        }
    }
    Ok(())
}

fn gen_layout(g: &mut Gen) -> Layout {
    match g.ch.below(6) {
        0 => Layout::Local(1 + g.ch.below(8) as u64),
        _ => {
            let n = 1 + g.ch.below(6);
            Layout::Hosts((0..n).map(|_| if g.ch.flag(1, 3) { 1 } else { 1 + g.ch.below(8) as u64 }).collect())
        }
    }
}

fn profile(narrow: bool) -> Profile {
    Profile {
        name: "c19",
        max_input: 3,
        w_repart: 30,
        w_replay: 7,
        w_iterate: 6,
        allow_narrowing: narrow,
        ..Profile::base()
    }
}

fn run(ctx: &Ctx, mode: &str) -> Report {
    if mode == "run" {
        return super::jobs::c19_run().run(ctx, mode);
    }
    let mut report = Report::default();
    let known = load_known(&ctx.verif_dir);
    let f1_open = is_open(&known, "C19", "forward-narrowing-unconnected-producer");
    let narrow = mode == "narrow" || !f1_open;
    if mode == "narrow" && !f1_open {
        return report; // the shape is part of the main search when the finding is not open
    }
    let p = profile(narrow);
    let cases = if mode == "narrow" { ctx.cases(800, 8000) } else { ctx.cases(6000, 120_000) };
    search(ctx, if mode == "narrow" { 2 } else { 1 }, cases, 40..260, &mut report, |choices, rep, _| {
        let mut g = Gen::new(choices, &p);
        let job = g.job();
        let layout = gen_layout(&mut g);
        let ds = match dumps(&job, &layout) {
            Ok(d) => d,
            Err(m) => return Case::Fail { message: m, replay: json!({"property": "C19", "job": job, "layout": layout}) },
        };
        match check_graph(&ds, &layout) {
            Ok(()) => {
                if mode == "narrow" {
                    return Case::Pass { nontrivial: None };
                }
                let d = &ds[0];
                let hosts = layout.n_hosts();
                let limited = d.blocks.iter().any(|b| matches!(b.replication, DumpReplication::Limited(_) | DumpReplication::Host));
                let fwd = d.blocks.iter().any(|b| b.is_only_one_strategy);
                let a2a = d.blocks.iter().any(|b| !b.is_only_one_strategy) && d.job_edges.len() > 1;
                rep.class_if(hosts >= 2, "multi_host");
                rep.class_if(limited, "limited_or_host_block");
                rep.class_if(layout.cores().iter().any(|c| *c == 1) && hosts >= 2, "one_core_host");
                rep.class_if(d.job_edges.iter().any(|e| e.2), "fragile_edge(iterate)");
                if rep.samples.len() < 2 {
                    rep.sample(json!({"layout": layout, "blocks": d.blocks.len(), "links": d.links.len(), "addresses": d.demux_addresses.len(), "job": job}));
                }
                let nt = hosts >= 2 && limited && fwd && a2a;
                Case::Pass { nontrivial: if nt { Some(fingerprint(&(&job, &layout))) } else { None } }
            }
            Err((clause, message)) => {
                if f1_open && clause == "forward_one_consumer" {
                    return Case::Known { key: "forward-narrowing-unconnected-producer".into(), what: message };
                }
                Case::Fail { message: format!("[{clause}] {message}"), replay: json!({"property": "C19", "job": job, "layout": layout}) }
            }
        }
    });
    if mode == "narrow" {
        report.evaluations = 0;
        report.nontrivial.clear();
    }
    report
}

fn replay(ctx: &Ctx, v: &Value) -> Result<String, String> {
    if v.get("configs").is_some() {
        return super::jobs::c19_run().replay(ctx, v);
    }
    let job: JobSpec = serde_json::from_value(v["job"].clone()).map_err(|e| e.to_string())?;
    let layout: Layout = serde_json::from_value(v["layout"].clone()).map_err(|e| e.to_string())?;
    let ds = dumps(&job, &layout)?;
    check_graph(&ds, &layout).map(|_| "graph well formed and equal on all hosts".to_string()).map_err(|(c, m)| format!("[{c}] {m}"))
}

pub fn def() -> CheckDef {
    CheckDef {
        id: "C19",
        level: "exploration",
        rule: "random job structures (loops, diamonds, multi-output blocks, repartition_by into Limited(n)/Host/One blocks, forward edges) x layouts of 1-6 hosts with 1-8 cores (heterogeneous, 1-core hosts); the execution graph and address map are computed once per host id through the dump hook without starting workers; oracle: dumps equal on all hosts, replicas per block follow the declared replication, global ids are a bijection onto 0..n, forward edges give every producer replica exactly one consumer (the same-index one when it exists), other edges are all-to-all, every remote link has an address, addresses are distinct and on the consumer's host; a second mode runs real jobs and compares, at every probe, the set of (host, replica) the block runs on with an independent model of its declared replication; non-trivial = >= 2 hosts with a Limited/Host block, a forward and an all-to-all edge (dump mode), >= 2 hosts and >= 2 repartitioning edges (run mode); distinct = hash of (job structure, layout)",
        assumptions: &["in the dump mode the forward/all-to-all kind and the declared replication of a block are read from the dump itself; the run mode checks the declaration against the harness' own model of the API (replication(r), repartition_by, fold -> One, zip -> One, ...)"],
        modes: |t| vec![("main", t.pick(6, 12)), ("run", t.pick(6, 8))],
        run,
        replay,
    }
}
