//! C15 — sources split their input exactly once: integer ranges (pure, all ten types), line and CSV
//! files (real jobs on 1..24 replicas), sequential sources (ordered).
use std::collections::BTreeMap;
use std::sync::Arc;

use renoir::operator::source::{CsvSource, IntoParallelSource};
use renoir::operator::sink::StreamOutput;
use serde_json::{json, Value};

use crate::framework::*;
use crate::gen::Chooser;
use crate::obs::JobCtx;
use crate::run::{run_job, AddrSeed, BuildFn, HostOutcome, JobOutcome, Layout, Watchdog};

use super::CheckDef;

// ---- ranges ---------------------------------------------------------------------------------

#[derive(Clone, Debug, serde::Serialize, serde::Deserialize, Hash)]
pub struct RangeCase {
    pub ty: String,
    pub start: i128,
    pub end: i128,
    pub peers: u64,
}

macro_rules! split_ty {
    ($t:ty, $c:expr) => {{
        let (s, e) = ($c.start as $t, $c.end as $t);
        let mut out = Vec::new();
        for i in 0..$c.peers {
            let r = std::panic::catch_unwind(|| (s..e).generate_iterator(i, $c.peers));
            match r {
                Ok(r) => out.push(Ok((r.start as i128, r.end as i128))),
                Err(p) => out.push(Err(crate::run::panic_msg(&p))),
            }
        }
        out
    }};
}

pub const TYPES: [&str; 10] = ["u8", "u16", "u32", "u64", "usize", "i8", "i16", "i32", "i64", "isize"];

fn limits(ty: &str) -> (i128, i128) {
    match ty {
        "u8" => (0, u8::MAX as i128),
        "u16" => (0, u16::MAX as i128),
        "u32" => (0, u32::MAX as i128),
        "u64" | "usize" => (0, u64::MAX as i128),
        "i8" => (i8::MIN as i128, i8::MAX as i128),
        "i16" => (i16::MIN as i128, i16::MAX as i128),
        "i32" => (i32::MIN as i128, i32::MAX as i128),
        _ => (i64::MIN as i128, i64::MAX as i128),
    }
}

pub fn split(c: &RangeCase) -> Vec<Result<(i128, i128), String>> {
    match c.ty.as_str() {
        "u8" => split_ty!(u8, c),
        "u16" => split_ty!(u16, c),
        "u32" => split_ty!(u32, c),
        "u64" => split_ty!(u64, c),
        "usize" => split_ty!(usize, c),
        "i8" => split_ty!(i8, c),
        "i16" => split_ty!(i16, c),
        "i32" => split_ty!(i32, c),
        "i64" => split_ty!(i64, c),
        _ => split_ty!(isize, c),
    }
}

pub fn decode_range(choices: &[u16]) -> RangeCase {
    let mut ch = Chooser::new(choices);
    let ty = TYPES[ch.below(10)];
    let (lo, hi) = limits(ty);
    let peers = match ch.below(4) {
        0 => 1 + ch.below(4) as u64,
        1 => 1 + ch.below(16) as u64,
        _ => 1 + ch.below(64) as u64,
    };
    // start: near the lower limit, near zero, near the upper limit or anywhere
    let big = |ch: &mut Chooser| -> i128 {
        let a = ch.next() as i128;
        let b = ch.next() as i128;
        let c = ch.next() as i128;
        let d = ch.next() as i128;
        (a << 48) | (b << 32) | (c << 16) | d
    };
    let span = hi - lo;
    let start = match ch.below(5) {
        0 => lo + ch.below(300) as i128,
        1 => -150 + ch.below(300) as i128,
        2 => hi - ch.below(300) as i128,
        3 => lo + big(&mut ch) % (span + 1),
        _ => ch.below(1000) as i128,
    }
    .clamp(lo, hi);
    // length: empty, tiny, medium, huge (up to 2^62), or reversed
    let len: i128 = match ch.below(7) {
        0 => 0,
        1 => ch.below(10) as i128,
        2 => ch.below(1000) as i128,
        3 => ch.below(70) as i128 * peers as i128 + ch.below(3) as i128,
        4 => big(&mut ch) % (1i128 << 62),
        5 => -(1 + ch.below(200) as i128),
        _ => -(big(&mut ch) % (1i128 << 62)),
    };
    let end = (start + len).clamp(lo, hi);
    RangeCase { ty: ty.to_string(), start, end, peers }
}

/// Oracle: no panic; sub-ranges ascending, pairwise disjoint, union = the range (nothing for an
/// empty or reversed range). Only bounds are inspected, nothing is iterated.
pub fn check_range(c: &RangeCase) -> Result<(), (String, String)> {
    let parts = split(c);
    let mut cursor = c.start;
    let empty = c.end <= c.start;
    for (i, p) in parts.iter().enumerate() {
        match p {
            Err(m) => return Err(("panic".into(), format!("replica {i}/{}: generate_iterator panicked: {m}", c.peers))),
            Ok((s, e)) => {
                let n = (*e - *s).max(0);
                if empty {
                    if n != 0 {
                        return Err((
                            "nonempty".into(),
                            format!("replica {i}/{} of the empty/reversed range {}..{} yields {s}..{e} ({n} elements)", c.peers, c.start, c.end),
                        ));
                    }
                    continue;
                }
                if n == 0 {
                    continue;
                }
                if *s != cursor {
                    return Err((
                        "partition".into(),
                        format!("replica {i}/{} yields {s}..{e}, expected to continue at {cursor} (range {}..{})", c.peers, c.start, c.end),
                    ));
                }
                cursor = *e;
            }
        }
    }
    if !empty && cursor != c.end {
        return Err(("partition".into(), format!("the sub-ranges cover {}..{cursor}, the range is {}..{}", c.start, c.start, c.end)));
    }
    Ok(())
}

// ---- files ----------------------------------------------------------------------------------

#[derive(Clone, Debug, serde::Serialize, serde::Deserialize, Hash)]
pub struct FileCase {
    pub content: String,
    pub csv: bool,
    pub header: bool,
    pub layouts: Vec<Layout>,
}

fn line(ch: &mut Chooser, csv: bool, n: &mut i64) -> String {
    if csv {
        *n += 1;
        let s = match ch.below(5) {
            0 => String::new(),
            1 => "ab".to_string(),
            2 => "\"q,uoted\"".to_string(),
            3 => "x".repeat(ch.below(40)),
            _ => "日本".to_string(),
        };
        format!("{},{}", n, s)
    } else {
        match ch.weighted(&[2, 5, 2, 1, 1]) {
            0 => String::new(),
            1 => "w".repeat(1 + ch.below(12)),
            2 => "long-".repeat(ch.below(60)),
            3 => "üñí→".to_string(),
            _ => " ".to_string(),
        }
    }
}

pub fn decode_file(choices: &[u16]) -> FileCase {
    let mut ch = Chooser::new(choices);
    let csv = ch.flag(2, 5);
    let header = csv && ch.flag(1, 2);
    let n_lines = match ch.below(4) {
        0 => ch.below(3),
        1 => ch.below(12),
        _ => ch.below(60),
    };
    let crlf = ch.flag(1, 4);
    let final_newline = ch.flag(3, 4);
    let mut content = String::new();
    if header {
        content.push_str("id,txt");
        content.push_str(if crlf { "\r\n" } else { "\n" });
    }
    let mut n = 0;
    for i in 0..n_lines {
        content.push_str(&line(&mut ch, csv, &mut n));
        if i + 1 < n_lines || final_newline {
            content.push_str(if crlf { "\r\n" } else { "\n" });
        }
    }
    let mut layouts = Vec::new();
    for _ in 0..3 {
        layouts.push(match ch.below(4) {
            0 => Layout::Local(1 + ch.below(4) as u64),
            1 => Layout::Local(1 + ch.below(24) as u64),
            2 => Layout::Local(1 + ch.below(n_lines.max(1) + 3) as u64),
            _ => Layout::Hosts((0..1 + ch.below(3)).map(|_| 1 + ch.below(4) as u64).collect()),
        });
    }
    FileCase { content, csv, header, layouts }
}

fn expected_lines(content: &str) -> Vec<String> {
    let mut v: Vec<String> = content.split_inclusive('\n').map(|s| s.to_string()).collect();
    v.sort();
    v
}

fn expected_records(c: &FileCase) -> Vec<(i64, String)> {
    let mut rdr = csv_free_parse(&c.content, c.header);
    rdr.sort();
    rdr
}

/// Tiny sequential CSV parser for the generated grammar (two fields, optional quotes around the
/// second, terminator \n or \r\n, empty lines skipped as the csv crate does).
fn csv_free_parse(content: &str, header: bool) -> Vec<(i64, String)> {
    let mut out = Vec::new();
    for (i, l) in content.split('\n').enumerate() {
        let l = l.strip_suffix('\r').unwrap_or(l);
        if header && i == 0 {
            continue;
        }
        if l.is_empty() {
            continue;
        }
        let (a, b) = l.split_once(',').unwrap();
        let b = b.strip_prefix('"').and_then(|x| x.strip_suffix('"')).unwrap_or(b);
        out.push((a.parse().unwrap(), b.to_string()));
    }
    out
}

pub fn check_file(c: &FileCase, dir: &std::path::Path, shard: u32, counter: &std::cell::Cell<u64>) -> Result<bool, String> {
    let _ = std::fs::create_dir_all(dir);
    let path = dir.join(format!("f{}.txt", counter.get()));
    std::fs::write(&path, &c.content).map_err(|e| e.to_string())?;
    let mut nontrivial = false;
    for layout in &c.layouts {
        let n = counter.get();
        counter.set(n + 1);
        let replicas = layout.total_cores() as usize;
        let p = path.clone();
        let csv = c.csv;
        let header = c.header;
        let build: BuildFn<Option<Vec<String>>> = Arc::new(move |env, _| {
            if csv {
                let out: StreamOutput<Vec<(i64, String)>> =
                    env.stream(CsvSource::<(i64, String)>::new(p.clone()).has_headers(header)).collect_vec();
                Box::new(move || out.get().map(|v| v.into_iter().map(|(a, b)| format!("{a}\u{1}{b}")).collect()))
            } else {
                let out = env.stream_file(p.clone()).collect_vec();
                Box::new(move || out.get())
            }
        });
        let ctx = JobCtx::new(None);
        let res = run_job(layout, AddrSeed { shard, job: n }, ctx, build, Watchdog::default());
        let hosts = match res {
            JobOutcome::Finished(h) => h,
            JobOutcome::Deadlock(d) => return Err(format!("deadlock reading the file: {}", d.diagnosis)),
            JobOutcome::Inconclusive(m) => return Err(format!("inconclusive: {m}")),
        };
        let mut got: Vec<String> = Vec::new();
        for h in hosts {
            match h {
                HostOutcome::Done(Some(v)) => got.extend(v),
                HostOutcome::Done(None) => {}
                HostOutcome::Panicked(m) => {
                    return Err(format!("{replicas} replicas ({layout:?}): the job panicked: {m}"))
                }
            }
        }
        got.sort();
        let mut exp: Vec<String> = if c.csv {
            expected_records(c).into_iter().map(|(a, b)| format!("{a}\u{1}{b}")).collect()
        } else {
            expected_lines(&c.content)
        };
        exp.sort();
        if got != exp {
            let missing: Vec<_> = exp.iter().filter(|l| !got.contains(l)).take(3).collect();
            let extra: Vec<_> = got.iter().filter(|l| !exp.contains(l)).take(3).collect();
            return Err(format!(
                "{replicas} replicas ({layout:?}), file of {} bytes: {} {} emitted, {} expected; missing {missing:?}, unexpected {extra:?}",
                c.content.len(),
                got.len(),
                if c.csv { "records" } else { "lines" },
                exp.len()
            ));
        }
        // non-trivial: more replicas than lines, or a line boundary within one byte of a replica
        // boundary
        let size = c.content.len();
        if replicas > 1 {
            let range = size / replicas;
            let near = (1..replicas).any(|i| {
                let b = range * i;
                c.content
                    .char_indices()
                    .any(|(p, ch)| ch == '\n' && (p + 1).abs_diff(b) <= 1)
            });
            if near || replicas > exp.len() {
                nontrivial = true;
            }
        }
    }
    let _ = std::fs::remove_file(&path);
    Ok(nontrivial)
}

// ---- sequential sources -------------------------------------------------------------------

fn check_sequential(ch: &mut Chooser, shard: u32, n: u64) -> Result<(), String> {
    let len = ch.below(400);
    let data: Vec<i64> = (0..len as i64).map(|i| i * 7 % 31).collect();
    let layout = Layout::Local(1 + ch.below(6) as u64);
    let use_channel = ch.flag(1, 2);
    let d2 = data.clone();
    let build: BuildFn<Option<Vec<i64>>> = Arc::new(move |env, _| {
        let out = if use_channel {
            let (tx, src) = renoir::operator::source::ChannelSource::new(8);
            let d3 = d2.clone();
            std::thread::spawn(move || {
                for x in d3 {
                    let _ = tx.send(x);
                }
            });
            env.stream(src).collect_vec()
        } else {
            env.stream_iter(d2.clone().into_iter()).collect_vec()
        };
        Box::new(move || out.get())
    });
    match run_job(&layout, AddrSeed { shard, job: n }, JobCtx::new(None), build, Watchdog::default()) {
        JobOutcome::Finished(h) => match h.into_iter().next() {
            Some(HostOutcome::Done(Some(v))) if v == data => Ok(()),
            Some(HostOutcome::Done(got)) => Err(format!(
                "sequential source ({}) on {layout:?}: emitted {:?}.., expected the {} items in order",
                if use_channel { "ChannelSource" } else { "stream_iter" },
                got.map(|v| v.into_iter().take(8).collect::<Vec<_>>()),
                data.len()
            )),
            other => Err(format!("sequential source job failed: {other:?}")),
        },
        _ => Err("sequential source job did not finish".into()),
    }
}

fn run(ctx: &Ctx, mode: &str) -> Report {
    let mut report = Report::default();
    let known = load_known(&ctx.verif_dir);
    match mode {
        "ranges" => {
            let cases = ctx.cases(400_000, 12_000_000);
            search(ctx, 1, cases, 12..24, &mut report, |choices, rep, _| {
                let c = decode_range(choices);
                let reversed = c.end < c.start;
                let (_, hi) = limits(&c.ty);
                let near_limit = hi - c.end.max(c.start) < 256;
                match check_range(&c) {
                    Ok(()) => {
                        rep.class(&format!("type:{}", c.ty));
                        rep.class_if(reversed, "reversed");
                        rep.class_if(c.end == c.start, "empty");
                        rep.class_if(near_limit, "near_upper_limit");
                        rep.class_if((c.end - c.start) > (1 << 40), "huge");
                        if rep.samples.len() < 2 {
                            rep.sample(json!(c));
                        }
                        let len = c.end - c.start;
                        let nt = reversed || near_limit || (len > 0 && len % c.peers as i128 != 0);
                        Case::Pass { nontrivial: if nt { Some(fingerprint(&c)) } else { None } }
                    }
                    Err((clause, message)) => {
                        let key = if reversed { "reversed-range" } else if c.ty == "usize" && c.start.max(c.end) > i64::MAX as i128 { "usize-above-i64-max" } else { "" };
                        if !key.is_empty() && is_open(&known, "C15", key) {
                            return Case::Known { key: key.into(), what: message };
                        }
                        Case::Fail { message: format!("[{clause}] {}: {message}", c.ty), replay: json!({"property": "C15", "range": c}) }
                    }
                }
            });
        }
        "files" => {
            let cases = ctx.cases(240, 8000);
            let dir = ctx.verif_dir.join(".work").join(format!("c15-{}", std::process::id()));
            let counter = std::cell::Cell::new(0u64);
            search(ctx, 2, cases, 20..200, &mut report, |choices, rep, _| {
                let c = decode_file(choices);
                match check_file(&c, &dir, ctx.shard, &counter) {
                    Ok(nt) => {
                        rep.class_if(c.csv, "csv");
                        rep.class_if(!c.csv, "lines");
                        rep.class_if(c.content.is_empty(), "empty_file");
                        rep.class_if(c.content.contains("\r\n"), "crlf");
                        rep.class_if(!c.content.is_empty() && !c.content.ends_with('\n'), "no_final_newline");
                        rep.class_if(c.layouts.iter().any(|l| l.is_remote()), "multi_host");
                        if rep.samples.len() < 2 {
                            rep.sample(json!(c));
                        }
                        Case::Pass { nontrivial: if nt { Some(fingerprint(&c)) } else { None } }
                    }
                    Err(message) => Case::Fail { message, replay: json!({"property": "C15", "file": c}) },
                }
            });
            let _ = std::fs::remove_dir_all(&dir);
        }
        _ => {
            let cases = ctx.cases(120, 3000);
            let counter = std::cell::Cell::new(0u64);
            search(ctx, 3, cases, 4..8, &mut report, |choices, rep, _| {
                let mut ch = Chooser::new(choices);
                let n = counter.get();
                counter.set(n + 1);
                match check_sequential(&mut ch, ctx.shard, n) {
                    Ok(()) => {
                        rep.class("sequential_sources");
                        Case::Pass { nontrivial: Some(fingerprint(&choices.to_vec())) }
                    }
                    Err(message) => Case::Fail { message, replay: json!({"property": "C15", "sequential": choices}) },
                }
            });
        }
    }
    report
}


fn fuzz_choices(v: &Value) -> Option<Vec<u16>> {
    let b: Vec<u8> = serde_json::from_value(v.get("fuzz_bytes")?.clone()).ok()?;
    Some(b.chunks(2).map(|c| u16::from_le_bytes([c[0], *c.get(1).unwrap_or(&0)])).collect())
}

fn replay(ctx: &Ctx, v: &Value) -> Result<String, String> {
    if let Some(ch) = fuzz_choices(v) {
        return check_range(&decode_range(&ch)).map(|_| "range split is a partition".into()).map_err(|(c, m)| format!("[{c}] {m}"));
    }
    if v.get("range").is_some() {
        let c: RangeCase = serde_json::from_value(v["range"].clone()).map_err(|e| e.to_string())?;
        return check_range(&c).map(|_| "range split is a partition".into()).map_err(|(c, m)| format!("[{c}] {m}"));
    }
    if v.get("file").is_some() {
        let c: FileCase = serde_json::from_value(v["file"].clone()).map_err(|e| e.to_string())?;
        let dir = ctx.verif_dir.join(".work").join(format!("c15r-{}", std::process::id()));
        let counter = std::cell::Cell::new(0u64);
        let r = check_file(&c, &dir, 210, &counter).map(|_| "file split exactly once".to_string());
        let _ = std::fs::remove_dir_all(&dir);
        return r;
    }
    let choices: Vec<u16> = serde_json::from_value(v["sequential"].clone()).map_err(|e| e.to_string())?;
    check_sequential(&mut Chooser::new(&choices), 211, 0).map(|_| "in order".into())
}

pub fn def() -> CheckDef {
    let _: BTreeMap<u8, u8> = BTreeMap::new();
    CheckDef {
        id: "C15",
        level: "exploration",
        rule: "(a) Range<T> for the ten integer types x 1..64 peers: bounds near both type limits, around zero, empty, reversed, lengths up to 2^62; generate_iterator is called for every replica index and only the bounds of the sub-ranges are inspected: no panic, ascending, disjoint, union = the range (nothing for empty/reversed); (b) generated text and CSV files (empty file, empty lines, missing final newline, CRLF, long and multi-byte lines, quoted fields, header) read through stream_file / CsvSource jobs on 1..24 local replicas and multi-host layouts: multiset of emitted lines/records = sequential split; (c) stream_iter / ChannelSource: collect_vec equals the input sequence; non-trivial: (a) reversed, near a type limit or length not divisible by peers, (b) a line boundary within one byte of a replica boundary or more replicas than lines; distinct = hash of the case",
        assumptions: &["CSV precondition: no record terminator inside quoted fields (documented limitation of the parallel CSV source)"],
        modes: |t| vec![("ranges", t.pick(4, 8)), ("files", t.pick(6, 8)), ("seq", 2)],
        run,
        replay,
    }
}
