//! C12 — count windows: (a) `CountWindowManager` driven directly through the public
//! `WindowDescription::build` / `WindowManager::process` API against a literal sliding-group model;
//! (b) end-to-end jobs `source -> group_by -> window(CountWindow) -> aggregator -> sink`.
use std::collections::HashMap;

use renoir::operator::window::{CountWindow, WindowAccumulator, WindowDescription, WindowManager, WindowResult};
use renoir::operator::StreamElement;
use serde_json::{json, Value};

use crate::framework::*;
use crate::gen::{Chooser, Profile};

use super::jobs::{JobCheck, Monitors};
use super::CheckDef;

#[derive(Clone, Default)]
pub struct Collect(pub Vec<i64>);
impl WindowAccumulator for Collect {
    type In = i64;
    type Out = Vec<i64>;
    fn process(&mut self, el: i64) {
        self.0.push(el)
    }
    fn output(self) -> Vec<i64> {
        self.0
    }
}

#[derive(Clone, Debug, serde::Serialize, serde::Deserialize, Hash)]
pub enum Op {
    Item(u8, i64),
    Flush,
}

#[derive(Clone, Debug, serde::Serialize, serde::Deserialize, Hash)]
pub struct History {
    pub n: usize,
    pub s: usize,
    pub exact: bool,
    pub ops: Vec<Op>,
}

pub fn decode(choices: &[u16]) -> History {
    let mut ch = Chooser::new(choices);
    let n = 1 + ch.below(8);
    let s = 1 + ch.below(n);
    let exact = ch.flag(1, 2);
    let keys = 1 + ch.below(3);
    let mut ops = Vec::new();
    let mut v = 0i64;
    while !ch.exhausted() && ops.len() < 120 {
        if ch.below(12) == 11 {
            ops.push(Op::Flush);
        } else {
            v += 1;
            ops.push(Op::Item(ch.below(keys) as u8, v));
        }
    }
    ops.push(Op::Flush);
    History { n, s, exact, ops }
}

/// Run the history on the real manager (one per key, as `KeyedWindowManager` does) and compare with
/// the literal model after every call.
pub fn check_history(h: &History) -> Result<bool, String> {
    let descr = CountWindow::new(h.n, h.s, h.exact);
    let init = descr.build(Collect::default());
    let mut mgrs: HashMap<u8, _> = HashMap::new();
    // model: per key, the elements of the current iteration and the number of emitted groups
    let mut model: HashMap<u8, (Vec<i64>, usize)> = HashMap::new();
    let mut nontrivial = false;
    for (i, op) in h.ops.iter().enumerate() {
        match op {
            Op::Item(k, v) => {
                let m = mgrs.entry(*k).or_insert_with(|| init.clone());
                let got: Vec<Vec<i64>> = m
                    .process(StreamElement::Item(*v))
                    .into_iter()
                    .map(|r: WindowResult<Vec<i64>>| r.unwrap_item())
                    .collect();
                let (vals, emitted) = model.entry(*k).or_default();
                vals.push(*v);
                let mut exp = Vec::new();
                // group j = [jS, jS+N) is emitted by the call that delivers its N-th element
                while *emitted * h.s + h.n <= vals.len() {
                    exp.push(vals[*emitted * h.s..*emitted * h.s + h.n].to_vec());
                    *emitted += 1;
                }
                if vals.len() >= h.n + h.s {
                    nontrivial = true;
                }
                if got != exp {
                    return Err(format!(
                        "op {i} (key {k}, element #{} of the key): emitted {got:?}, the sliding groups require {exp:?}",
                        vals.len()
                    ));
                }
            }
            Op::Flush => {
                let mut keys: Vec<u8> = mgrs.keys().copied().collect();
                keys.sort();
                for k in keys {
                    let m = mgrs.get_mut(&k).unwrap();
                    let got: Vec<Vec<i64>> = m
                        .process(StreamElement::FlushAndRestart)
                        .into_iter()
                        .map(|r| r.unwrap_item())
                        .collect();
                    let (vals, emitted) = model.entry(k).or_default();
                    let mut exp = Vec::new();
                    if !h.exact && *emitted * h.s < vals.len() {
                        exp.push(vals[*emitted * h.s..].to_vec());
                    }
                    if got != exp {
                        return Err(format!(
                            "op {i} (end of iteration, key {k}, {} elements, {} groups emitted): emitted {got:?}, expected {exp:?}",
                            vals.len(),
                            emitted
                        ));
                    }
                    vals.clear();
                    *emitted = 0;
                }
            }
        }
    }
    Ok(nontrivial)
}

fn jobs() -> JobCheck {
    JobCheck {
        id: "C12",
        profile: || Profile {
            name: "c12",
            w_window: 40,
            w_simple: 20,
            w_repart: 4,
            w_keyed_agg: 1,
            w_global_agg: 1,
            w_fork: 3,
            w_diamond: 2,
            w_with: 2,
            w_route: 0,
            w_replay: 1,
            w_iterate: 0,
            w_broadcast: 0,
            prefer_iter_source: true,
            max_input: 600,
            ..Profile::base()
        },
        monitors: Monitors { sinks: true, per_iteration: true, ..Monitors::default() },
        k: (3, 4),
        cases: (160, 4000),
        nontrivial: |f, j, _c, _r| f.has_window && j.pipe.source.len() >= 10,
        classes: |_f, _j, _c, _r, _rep| {},
    }
}

fn run(ctx: &Ctx, mode: &str) -> Report {
    if mode == "jobs" {
        return jobs().run(ctx, mode);
    }
    let mut report = Report::default();
    let cases = ctx.cases(400_000, 8_000_000);
    search(ctx, 2, cases, 4..160, &mut report, |choices, rep, _| {
        let h = decode(choices);
        match check_history(&h) {
            Ok(nt) => {
                rep.class_if(h.n % h.s == 0 && h.s != h.n && h.s != 1, "slide_divides_size");
                rep.class_if(h.n % h.s != 0, "slide_does_not_divide_size");
                rep.class_if(h.s == h.n, "tumbling");
                rep.class_if(h.s == 1, "slide_1");
                rep.class_if(!h.exact, "non_exact");
                rep.class("histories");
                if rep.samples.len() < 2 {
                    rep.sample(json!(h));
                }
                Case::Pass { nontrivial: if nt { Some(fingerprint(&h)) } else { None } }
            }
            Err(message) => Case::Fail { message, replay: json!({"property": "C12", "history": h}) },
        }
    });
    report
}


fn fuzz_choices(v: &Value) -> Option<Vec<u16>> {
    let b: Vec<u8> = serde_json::from_value(v.get("fuzz_bytes")?.clone()).ok()?;
    Some(b.chunks(2).map(|c| u16::from_le_bytes([c[0], *c.get(1).unwrap_or(&0)])).collect())
}

fn replay(ctx: &Ctx, v: &Value) -> Result<String, String> {
    if let Some(ch) = fuzz_choices(v) {
        return check_history(&decode(&ch)).map(|_| "history conforms to the model".to_string());
    }
    if v.get("history").is_some() {
        let h: History = serde_json::from_value(v["history"].clone()).map_err(|e| e.to_string())?;
        check_history(&h).map(|_| "history conforms to the model".to_string())
    } else {
        jobs().replay(ctx, v)
    }
}

pub fn def() -> CheckDef {
    CheckDef {
        id: "C12",
        level: "exploration",
        rule: "(a) histories (N<=8, S<=N, exact/non-exact, 1-3 keys, up to 120 interleaved elements and end-of-iteration markers) fed to CountWindowManager through the public WindowDescription/WindowManager API, compared call by call with the literal sliding groups [jS, jS+N); (b) jobs source -> group_by -> count window -> {collect, fold, sum, count, min, max, first, last} on 1-8 replicas / 1-4 hosts compared with the reference; non-trivial = a key with >= N+S elements (a) / a window over >= 10 elements (b); distinct = hash of the history / of (job, configuration)",
        assumptions: &["per-key arrival order in (b) is the source order (single producer per key link)"],
        modes: |t| vec![("model", t.pick(4, 8)), ("jobs", t.pick(4, 8))],
        run,
        replay,
    }
}
