//! C13 — event-time and transaction windows, driven directly through the public
//! `WindowDescription::build` / `WindowManager::process` API exactly as `KeyedWindowManager` does
//! (one manager per key, managers are recycled when they report `recycle()`), judged by validity
//! predicates that assume no particular window alignment.
use std::collections::{BTreeMap, HashMap};

use renoir::operator::window::{
    EventTimeWindow, TransactionOp, TransactionWindow, WindowDescription, WindowManager, WindowResult,
};
use renoir::operator::StreamElement;
use serde_json::{json, Value};

use crate::framework::*;
use crate::gen::Chooser;

use super::c12::Collect;
use super::CheckDef;

#[derive(Clone, Debug, serde::Serialize, serde::Deserialize, Hash, PartialEq)]
pub enum Op {
    /// key, unique id, timestamp
    Elem(u8, i64, i64),
    Watermark(i64),
    Flush,
}

#[derive(Clone, Debug, serde::Serialize, serde::Deserialize, Hash)]
pub struct History {
    pub size: i64,
    pub slide: i64,
    pub ops: Vec<Op>,
}

/// Does the history contain an element that is older than the first element of its key in the
/// same "manager life" (the shape of known finding F2)?
pub fn has_older_than_anchor(h: &History) -> bool {
    // conservative: any element whose timestamp is lower than an earlier element of the same key
    // in the same iteration
    let mut maxs: HashMap<u8, i64> = HashMap::new();
    for op in &h.ops {
        match op {
            Op::Elem(k, _, ts) => {
                if let Some(m) = maxs.get(k) {
                    if ts < m {
                        return true;
                    }
                }
                let e = maxs.entry(*k).or_insert(*ts);
                *e = (*e).max(*ts);
            }
            Op::Flush => maxs.clear(),
            _ => {}
        }
    }
    false
}

pub struct GenOpts {
    /// never generate an element older than an earlier element of its key (avoids F2's shape)
    pub monotone_per_key: bool,
}

pub fn decode(choices: &[u16], opts: &GenOpts) -> History {
    let mut ch = Chooser::new(choices);
    let size = 1 + ch.below(12) as i64;
    let slide = match ch.below(3) {
        0 => size,
        1 => 1 + ch.below(size as usize) as i64,
        _ => (size / 2).max(1),
    };
    let keys = 1 + ch.below(3);
    let spread = [3i64, 8, 30][ch.below(3)];
    let mut ops = Vec::new();
    let mut wm: Option<i64> = None;
    let mut max_seen: i64 = ch.range(-20, 20);
    let mut last_per_key: HashMap<u8, i64> = HashMap::new();
    let mut id = 0i64;
    while !ch.exhausted() && ops.len() < 100 {
        match ch.weighted(&[10, 3, 1]) {
            0 => {
                let k = ch.below(keys) as u8;
                let lo = wm.map_or(max_seen - spread, |w| w + 1);
                let lo = if opts.monotone_per_key {
                    lo.max(last_per_key.get(&k).copied().unwrap_or(i64::MIN))
                } else {
                    lo
                };
                // mostly near the frontier, sometimes a jump larger than the window (idle gap)
                let hi = if ch.below(10) == 9 { max_seen + 3 * size + spread } else { max_seen + spread };
                let ts = ch.range(lo, hi.max(lo));
                id += 1;
                max_seen = max_seen.max(ts);
                let e = last_per_key.entry(k).or_insert(ts);
                *e = (*e).max(ts);
                ops.push(Op::Elem(k, id, ts));
            }
            1 => {
                let lo = wm.map_or(max_seen - spread, |w| w + 1);
                let w = match ch.below(4) {
                    // on a multiple of the slide
                    0 => {
                        let c = ch.range(lo, (max_seen + size).max(lo));
                        let m = c - c.rem_euclid(slide);
                        if m >= lo { m } else { m + slide }
                    }
                    // exactly on the end of a window anchored at some element
                    1 => {
                        let anchor = ops.iter().rev().find_map(|o| if let Op::Elem(_, _, t) = o { Some(*t) } else { None });
                        match anchor {
                            Some(a) => {
                                let mut e = a + size;
                                while e < lo {
                                    e += slide;
                                }
                                e
                            }
                            None => lo,
                        }
                    }
                    _ => ch.range(lo, (max_seen + 2).max(lo)),
                };
                wm = Some(w);
                max_seen = max_seen.max(w);
                ops.push(Op::Watermark(w));
            }
            _ => {
                ops.push(Op::Flush);
                wm = None;
                last_per_key.clear();
                max_seen = ch.range(-20, 20);
            }
        }
    }
    ops.push(Op::Flush);
    History { size, slide, ops }
}

#[derive(Debug)]
struct Emitted {
    key: u8,
    ids: Vec<i64>,
    end: i64,
    at: usize,
}

/// Returns Ok(nontrivial) or Err(violated clause, message).
pub fn check_history(h: &History) -> Result<bool, (String, String)> {
    let descr = EventTimeWindow::sliding(h.size, h.slide);
    let init = WindowDescription::<i64>::build(&descr, Collect::default());
    let mut mgrs: BTreeMap<u8, _> = BTreeMap::new();
    // iteration-local bookkeeping
    let mut elems: HashMap<i64, (u8, i64, usize)> = HashMap::new(); // id -> key, ts, op index
    let mut emitted: Vec<Emitted> = Vec::new();
    let mut out_of_order = false;
    let mut fired = 0;
    let cover_max = ((h.size + h.slide - 1) / h.slide) as usize;
    let mut last_ts: HashMap<u8, i64> = HashMap::new();

    let fail = |clause: &str, m: String| Err((clause.to_string(), m));

    for (i, op) in h.ops.iter().enumerate() {
        let mut results: Vec<(u8, WindowResult<Vec<i64>>)> = Vec::new();
        match op {
            Op::Elem(k, id, ts) => {
                if last_ts.get(k).map_or(false, |l| ts < l) {
                    out_of_order = true;
                }
                let e = last_ts.entry(*k).or_insert(*ts);
                *e = (*e).max(*ts);
                elems.insert(*id, (*k, *ts, i));
                let m = mgrs.entry(*k).or_insert_with(|| init.clone());
                let r = std::panic::catch_unwind(std::panic::AssertUnwindSafe(|| {
                    m.process(StreamElement::Timestamped(*id, *ts))
                }));
                match r {
                    Ok(r) => results.extend(r.into_iter().map(|x| (*k, x))),
                    Err(e) => {
                        return fail("panic", format!("op {i} {op:?}: the manager panicked: {}", crate::run::panic_msg(&e)))
                    }
                }
            }
            Op::Watermark(_) | Op::Flush => {
                let el = match op {
                    Op::Watermark(w) => StreamElement::Watermark(*w),
                    _ => StreamElement::FlushAndRestart,
                };
                let keys: Vec<u8> = mgrs.keys().copied().collect();
                for k in keys {
                    let m = mgrs.get_mut(&k).unwrap();
                    let r = m.process(el.clone());
                    results.extend(r.into_iter().map(|x| (k, x)));
                    if m.recycle() {
                        mgrs.remove(&k);
                    }
                }
            }
        }
        for (k, r) in results {
            let (ids, end) = match r {
                WindowResult::Timestamped(ids, end) => (ids, end),
                WindowResult::Item(ids) => {
                    return fail("stamp", format!("op {i}: event-time result {ids:?} without a timestamp"))
                }
            };
            // (1) one key, one interval of the window length
            for id in &ids {
                let Some((ek, ts, _)) = elems.get(id) else {
                    return fail("content", format!("op {i}: result contains {id}, not an element of this iteration"));
                };
                if *ek != k {
                    return fail("content", format!("op {i}: result of key {k} contains element {id} of key {ek}"));
                }
                if !(*ts >= end - h.size && *ts < end) {
                    return fail(
                        "interval",
                        format!("op {i}: result stamped {end} (window [{}, {end})) contains element {id} with timestamp {ts}", end - h.size),
                    );
                }
            }
            if ids.is_empty() {
                return fail("content", format!("op {i}: empty window result stamped {end}"));
            }
            // (3a) not before a watermark reaching the end / the end of the iteration
            match op {
                Op::Flush => {}
                Op::Watermark(w) if *w >= end => {}
                _ => {
                    return fail(
                        "early",
                        format!("op {i} {op:?}: result stamped {end} emitted before a watermark reached its end"),
                    )
                }
            }
            fired += 1;
            emitted.push(Emitted { key: k, ids, end, at: i });
        }
        // (3b) no later than the first watermark beyond the end: after Watermark(w) every element
        // with ts + (its window's end) ... is judged at the end of the iteration through coverage;
        // here: every emitted result must not have been emitted after a previous watermark > end
        if let Op::Watermark(_) | Op::Flush = op {
            for e in emitted.iter().filter(|e| e.at == i) {
                let late = h.ops[..i].iter().enumerate().rev().take_while(|(_, o)| !matches!(o, Op::Flush)).any(|(j, o)| {
                    // a watermark beyond the end, processed after every element of the result arrived
                    matches!(o, Op::Watermark(w) if *w > e.end)
                        && e.ids.iter().all(|id| elems[id].2 < j)
                });
                if late {
                    return fail(
                        "late",
                        format!("op {i}: result stamped {} of key {} emitted after an earlier watermark beyond its end", e.end, e.key),
                    );
                }
            }
        }
        if let Op::Flush = op {
            // (2) coverage of every element of the iteration
            let mut cover: HashMap<i64, usize> = HashMap::new();
            for e in &emitted {
                for id in &e.ids {
                    *cover.entry(*id).or_default() += 1;
                }
            }
            let mut ids: Vec<_> = elems.keys().copied().collect();
            ids.sort();
            for id in ids {
                let c = cover.get(&id).copied().unwrap_or(0);
                let (k, ts, at) = elems[&id];
                if c == 0 {
                    return fail(
                        "lost",
                        format!("element {id} (key {k}, timestamp {ts}, op {at}) is in no window result although no watermark made it late"),
                    );
                }
                if c > cover_max {
                    return fail(
                        "duplicated",
                        format!("element {id} (key {k}, timestamp {ts}) is in {c} results, at most {cover_max} windows can cover it"),
                    );
                }
            }
            // a window (key, end) is emitted once
            let mut seen = std::collections::HashSet::new();
            for e in &emitted {
                if !seen.insert((e.key, e.end)) {
                    return fail("duplicated", format!("window (key {}, end {}) emitted twice", e.key, e.end));
                }
            }
            elems.clear();
            emitted.clear();
            last_ts.clear();
            // the real operator keeps non-recycled managers; after a flush all are empty
            mgrs.clear();
        }
    }
    Ok(out_of_order && fired >= 2)
}

// ---- transaction windows ------------------------------------------------------------------------

#[derive(Clone, Debug, serde::Serialize, serde::Deserialize, Hash, PartialEq)]
pub enum TOp {
    /// key, id, command (0 continue, 1 commit, 2 commit-after(t), 3 discard), t
    Elem(u8, i64, u8, i64),
    Watermark(i64),
    Flush,
}

pub fn decode_tx(choices: &[u16]) -> Vec<TOp> {
    let mut ch = Chooser::new(choices);
    let keys = 1 + ch.below(3);
    let mut ops = Vec::new();
    let mut wm = ch.range(-5, 5);
    let mut id = 0;
    // keys with an open window without a pending commit: closed before the iteration ends, since
    // the outcome of an open transaction at the end of an iteration is unspecified
    let mut open: std::collections::BTreeSet<u8> = Default::default();
    let close_all = |ops: &mut Vec<TOp>, open: &mut std::collections::BTreeSet<u8>, id: &mut i64, ch: &mut Chooser| {
        for k in std::mem::take(open) {
            *id += 1;
            ops.push(TOp::Elem(k, *id, if ch.flag(1, 2) { 1 } else { 3 }, 0));
        }
    };
    while !ch.exhausted() && ops.len() < 100 {
        match ch.weighted(&[10, 3, 1]) {
            0 => {
                let k = ch.below(keys) as u8;
                id += 1;
                let cmd = ch.weighted(&[5, 2, 2, 1]) as u8;
                let t = wm + ch.range(-2, 6);
                match cmd {
                    0 => {
                        open.insert(k);
                    }
                    _ => {
                        open.remove(&k);
                    }
                }
                if cmd == 2 {
                    // pending commit: specified at the end of the iteration, keep it out of `open`
                }
                ops.push(TOp::Elem(k, id, cmd, t));
            }
            1 => {
                wm += ch.range(1, 4);
                ops.push(TOp::Watermark(wm));
            }
            _ => {
                close_all(&mut ops, &mut open, &mut id, &mut ch);
                ops.push(TOp::Flush);
            }
        }
    }
    close_all(&mut ops, &mut open, &mut id, &mut ch);
    ops.push(TOp::Flush);
    ops
}

pub fn check_tx(ops: &[TOp]) -> Result<bool, String> {
    type Item = (i64, u8, i64);
    #[derive(Clone, Default)]
    struct C(Vec<i64>);
    impl renoir::operator::window::WindowAccumulator for C {
        type In = Item;
        type Out = Vec<i64>;
        fn process(&mut self, el: Item) {
            self.0.push(el.0)
        }
        fn output(self) -> Vec<i64> {
            self.0
        }
    }
    let descr = TransactionWindow::new(|x: &Item| match x.1 {
        0 => TransactionOp::Continue,
        1 => TransactionOp::Commit,
        2 => TransactionOp::CommitAfter(x.2),
        _ => TransactionOp::Discard,
    });
    let init = descr.build(C::default());
    let mut mgrs: BTreeMap<u8, _> = BTreeMap::new();
    // model: per key (elements of the open group, pending close)
    let mut model: BTreeMap<u8, (Vec<i64>, Option<i64>)> = BTreeMap::new();
    let mut commits = 0;
    let mut pending_used = false;
    for (i, op) in ops.iter().enumerate() {
        let mut got: Vec<(u8, Vec<i64>)> = Vec::new();
        let mut exp: Vec<(u8, Vec<i64>)> = Vec::new();
        match op {
            TOp::Elem(k, id, cmd, t) => {
                let m = mgrs.entry(*k).or_insert_with(|| init.clone());
                got.extend(
                    m.process(StreamElement::Timestamped((*id, *cmd, *t), 0))
                        .into_iter()
                        .map(|r| (*k, r.unwrap_item())),
                );
                let g = model.entry(*k).or_default();
                g.0.push(*id);
                match cmd {
                    1 => {
                        exp.push((*k, std::mem::take(&mut g.0)));
                        g.1 = None;
                    }
                    2 => g.1 = Some(*t),
                    3 => {
                        g.0.clear();
                        g.1 = None;
                    }
                    _ => {}
                }
            }
            TOp::Watermark(_) | TOp::Flush => {
                let el: StreamElement<Item> = match op {
                    TOp::Watermark(w) => StreamElement::Watermark(*w),
                    _ => StreamElement::FlushAndRestart,
                };
                let keys: Vec<u8> = mgrs.keys().copied().collect();
                for k in keys {
                    let m = mgrs.get_mut(&k).unwrap();
                    got.extend(m.process(el.clone()).into_iter().map(|r| (k, r.unwrap_item())));
                    if m.recycle() {
                        mgrs.remove(&k);
                    }
                }
                for (k, g) in model.iter_mut() {
                    let fire = match (op, g.1) {
                        (TOp::Watermark(w), Some(c)) => c < *w,
                        (TOp::Flush, Some(_)) => true,
                        _ => false,
                    };
                    if fire && !g.0.is_empty() {
                        pending_used = true;
                        exp.push((*k, std::mem::take(&mut g.0)));
                        g.1 = None;
                    }
                }
            }
        }
        commits += exp.len();
        got.sort();
        exp.sort();
        if got != exp {
            return Err(format!(
                "op {i} {op:?}: committed groups {got:?}, the user logic dictates {exp:?}"
            ));
        }
    }
    Ok(commits >= 2 && pending_used)
}

fn run(ctx: &Ctx, mode: &str) -> Report {
    if mode == "event_e2e" {
        return super::c06::run_other(ctx, mode);
    }
    let mut report = Report::default();
    let known = load_known(&ctx.verif_dir);
    if mode == "tx" {
        let cases = ctx.cases(300_000, 6_000_000);
        search(ctx, 3, cases, 4..140, &mut report, |choices, rep, _| {
            let ops = decode_tx(choices);
            match check_tx(&ops) {
                Ok(nt) => {
                    rep.class("tx_histories");
                    if rep.samples.len() < 1 {
                        rep.sample(json!({"transaction_history": ops}));
                    }
                    Case::Pass { nontrivial: if nt { Some(fingerprint(&ops)) } else { None } }
                }
                Err(message) => Case::Fail { message, replay: json!({"property": "C13", "tx": ops}) },
            }
        });
        return report;
    }
    let f2_open = is_open(&known, "C13", "element-older-than-anchor-lost");
    if mode == "kf" {
        // dedicated sub-run for the open known finding: generate exactly the triggering shape
        if f2_open {
            let cases = ctx.cases(2_000, 20_000);
            let hit = std::cell::Cell::new(false);
            search(ctx, 4, cases, 4..60, &mut report, |choices, _rep, _| {
                let h = decode(choices, &GenOpts { monotone_per_key: false });
                if let Err((clause, m)) = check_history(&h) {
                    if clause == "lost" && has_older_than_anchor(&h) {
                        hit.set(true);
                        return Case::Known {
                            key: "element-older-than-anchor-lost".into(),
                            what: format!("still reproduces, e.g. {m}"),
                        };
                    }
                }
                Case::Pass { nontrivial: None }
            });
            report.evaluations = 0; // the sub-run demonstrates, it does not add coverage
            report.nontrivial.clear();
        }
        return report;
    }
    let cases = ctx.cases(600_000, 12_000_000);
    search(ctx, 2, cases, 4..140, &mut report, |choices, rep, _| {
        let h = decode(choices, &GenOpts { monotone_per_key: f2_open });
        match check_history(&h) {
            Ok(nt) => {
                rep.class_if(h.slide == h.size, "tumbling");
                rep.class_if(h.slide < h.size, "sliding");
                rep.class_if(has_older_than_anchor(&h), "out_of_order_arrivals");
                rep.class("histories");
                if rep.samples.len() < 2 {
                    rep.sample(json!(h));
                }
                Case::Pass { nontrivial: if nt || (f2_open && h.ops.len() > 8) { Some(fingerprint(&h)) } else { None } }
            }
            Err((clause, message)) => {
                if f2_open && clause == "lost" && has_older_than_anchor(&h) {
                    return Case::Known { key: "element-older-than-anchor-lost".into(), what: message };
                }
                Case::Fail { message: format!("[{clause}] {message}"), replay: json!({"property": "C13", "history": h}) }
            }
        }
    });
    report
}


fn fuzz_choices(v: &Value) -> Option<Vec<u16>> {
    let b: Vec<u8> = serde_json::from_value(v.get("fuzz_bytes")?.clone()).ok()?;
    Some(b.chunks(2).map(|c| u16::from_le_bytes([c[0], *c.get(1).unwrap_or(&0)])).collect())
}

fn replay(ctx: &Ctx, v: &Value) -> Result<String, String> {
    if let Some(ch) = fuzz_choices(v) {
        // the artifact may come from either target: both must hold
        check_history(&decode(&ch, &GenOpts { monotone_per_key: false })).map_err(|(c, m)| format!("[{c}] {m}"))?;
        check_tx(&decode_tx(&ch))?;
        return Ok("both histories satisfy the predicates".into());
    }
    if v.get("choices").is_some() {
        return super::c06::replay_ts(ctx, v);
    }
    if v.get("tx").is_some() {
        let ops: Vec<TOp> = serde_json::from_value(v["tx"].clone()).map_err(|e| e.to_string())?;
        return check_tx(&ops).map(|_| "transaction history conforms".into());
    }
    let h: History = serde_json::from_value(v["history"].clone()).map_err(|e| e.to_string())?;
    check_history(&h)
        .map(|_| "history satisfies the predicates".to_string())
        .map_err(|(c, m)| format!("[{c}] {m}"))
}

pub fn def() -> CheckDef {
    CheckDef {
        id: "C13",
        level: "exploration",
        rule: "histories (size 1-12, slide<=size, 1-3 keys, up to 100 timestamped elements / watermarks / end-of-iteration markers respecting the watermark contract, out-of-order arrivals, idle gaps > size, watermarks on slide multiples and on window ends) fed to EventTimeWindowManager as KeyedWindowManager does; predicates: one key and one interval of the window length per result, every element in >=1 and <= ceil(size/slide) results (exactly 1 for tumbling), a result is emitted by a watermark >= its end or the end of the iteration and never after an earlier watermark beyond its end, no window twice; transaction histories against a literal model of Continue/Commit/CommitAfter/Discard; non-trivial = >=1 out-of-order arrival and >=2 fired windows (event time), >=2 commits with a pending CommitAfter (transaction); distinct = hash of the history",
        assumptions: &["managers are driven directly (single thread); the end-to-end path through group_by + window is covered by C06's jobs"],
        modes: |t| vec![("model", t.pick(4, 8)), ("tx", t.pick(2, 4)), ("event_e2e", t.pick(3, 6))],
        run,
        replay,
    }
}
