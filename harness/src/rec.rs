//! Value domain and the deterministic families of user functions.
use serde::{Deserialize, Serialize};

/// The element carried by every generated stream. `v` is the semantic payload, `m` is metadata
/// written by stampers (ignored by every user function and by comparisons), `pad` varies the
/// frame size.
#[derive(Clone, Debug, Default, PartialEq, Eq, Hash, PartialOrd, Ord, Serialize, Deserialize)]
pub struct Rec {
    pub v: i64,
    pub m: u64,
    pub pad: Vec<u8>,
}

impl Rec {
    pub fn new(v: i64) -> Rec {
        Rec {
            v,
            m: 0,
            pad: Vec::new(),
        }
    }
    /// What sinks are compared on.
    pub fn obs(&self) -> (i64, usize) {
        (self.v, self.pad.len())
    }
}

/// 64-bit mixing function (splitmix64 finalizer).
pub fn mix64(mut z: u64) -> u64 {
    z = z.wrapping_add(0x9e3779b97f4a7c15);
    z = (z ^ (z >> 30)).wrapping_mul(0xbf58476d1ce4e5b9);
    z = (z ^ (z >> 27)).wrapping_mul(0x94d049bb133111eb);
    z ^ (z >> 31)
}

/// Combine the two sides of a join into one value; `None` is a sentinel.
pub fn mix_pair(l: Option<i64>, r: Option<i64>) -> i64 {
    let a = match l {
        Some(x) => mix64(x as u64),
        None => 0x1111_2222_3333_4444,
    };
    let b = match r {
        Some(x) => mix64((x as u64) ^ 0xabcdef),
        None => 0x5555_6666_7777_8888,
    };
    // keep the values small enough to stay readable but collision free in practice
    (mix64(a ^ b.rotate_left(17)) >> 16) as i64
}

#[derive(Clone, Copy, Debug, PartialEq, Eq, Hash, Serialize, Deserialize)]
pub enum MapFn {
    /// v -> a*v + b (wrapping)
    Affine(i64, i64),
    /// v -> v.rem_euclid(k)
    Rem(i64),
    /// v -> (mix(v) >> 40) : scrambles keys
    Scramble,
    /// v -> v + state.acc (inside loops), identity elsewhere
    AddState,
    /// identity; on the engine the closure sleeps `us` microseconds before every element with
    /// v.rem_euclid(k) == 0: a slow, bursty stream
    Paced(i64, u32),
}

impl MapFn {
    pub fn apply(&self, v: i64, state_acc: i64) -> i64 {
        match *self {
            MapFn::Affine(a, b) => v.wrapping_mul(a).wrapping_add(b),
            MapFn::Rem(k) => v.rem_euclid(k.max(1)),
            MapFn::Scramble => (mix64(v as u64) >> 44) as i64,
            MapFn::AddState => v.wrapping_add(state_acc),
            MapFn::Paced(..) => v,
        }
    }
    /// what the closure does on the engine besides computing `apply`
    pub fn side_effect(&self, v: i64) {
        if let MapFn::Paced(k, us) = *self {
            if v.rem_euclid(k.max(1)) == 0 {
                std::thread::sleep(std::time::Duration::from_micros(us as u64));
            }
        }
    }
}

#[derive(Clone, Copy, Debug, PartialEq, Eq, Hash, Serialize, Deserialize)]
pub enum FilterFn {
    /// keep v with v.rem_euclid(k) != r
    ModNe(i64, i64),
    /// keep v < t
    Less(i64),
    /// keep v >= t
    GreaterEq(i64),
    /// keep v with v mod m < (loop state) mod m: the kept set changes from round to round
    /// (outside loops the state is 0: nothing is kept)
    StateMod(i64),
}

impl FilterFn {
    pub fn keep(&self, v: i64, state_acc: i64) -> bool {
        match *self {
            FilterFn::StateMod(m) => v.rem_euclid(m.max(1)) < state_acc.rem_euclid(m.max(1)),
            FilterFn::ModNe(k, r) => v.rem_euclid(k.max(1)) != r,
            FilterFn::Less(t) => v < t,
            FilterFn::GreaterEq(t) => v >= t,
        }
    }
}

#[derive(Clone, Copy, Debug, PartialEq, Eq, Hash, Serialize, Deserialize)]
pub enum FlatFn {
    /// v -> n children v*n+i
    Dup(u8),
    /// v -> (v mod k) children
    Fan(u8),
}

impl FlatFn {
    pub fn apply(&self, v: i64) -> Vec<i64> {
        match *self {
            FlatFn::Dup(n) => (0..n as i64)
                .map(|i| v.wrapping_mul(n as i64).wrapping_add(i))
                .collect(),
            FlatFn::Fan(k) => {
                let n = v.rem_euclid((k as i64).max(1));
                (0..n).map(|i| v.wrapping_add(i.wrapping_mul(1000003))).collect()
            }
        }
    }
    pub fn max_fanout(&self) -> usize {
        match *self {
            FlatFn::Dup(n) => n as usize,
            FlatFn::Fan(k) => (k as usize).saturating_sub(1),
        }
    }
}

/// Associative and commutative aggregations with an identity.
#[derive(Clone, Copy, Debug, PartialEq, Eq, Hash, Serialize, Deserialize)]
pub enum Agg {
    Sum,
    Count,
    Min,
    Max,
    Xor,
}

impl Agg {
    pub fn identity(&self) -> i64 {
        match self {
            Agg::Sum | Agg::Count | Agg::Xor => 0,
            Agg::Min => i64::MAX,
            Agg::Max => i64::MIN,
        }
    }
    pub fn lift(&self, v: i64) -> i64 {
        match self {
            Agg::Count => 1,
            _ => v,
        }
    }
    pub fn combine(&self, a: i64, b: i64) -> i64 {
        match self {
            Agg::Sum | Agg::Count => a.wrapping_add(b),
            Agg::Min => a.min(b),
            Agg::Max => a.max(b),
            Agg::Xor => a ^ b,
        }
    }
    pub fn fold(&self, vs: impl IntoIterator<Item = i64>) -> i64 {
        vs.into_iter()
            .fold(self.identity(), |a, v| self.combine(a, self.lift(v)))
    }
}

/// Route predicates: the API takes `fn` items, so they come from a fixed table.
pub fn route_pred(idx: u8) -> fn(&Rec) -> bool {
    match idx % 6 {
        0 => |r| r.v.rem_euclid(2) == 0,
        1 => |r| r.v.rem_euclid(3) == 0,
        2 => |r| r.v < 0,
        3 => |r| r.v.rem_euclid(5) < 2,
        4 => |r| r.v > 100,
        _ => |_| true,
    }
}

/// State of generated loops.
#[derive(Clone, Debug, Default, PartialEq, Eq, Hash, Serialize, Deserialize)]
pub struct LoopState {
    /// Incremented by the loop condition: number of completed rounds.
    pub round: u32,
    /// Accumulated value.
    pub acc: i64,
}
