//! Decoder from a choice sequence (`&[u16]`) to job and configuration specs. Smaller numbers and
//! shorter sequences decode to simpler programs; an exhausted sequence yields zeros, i.e. the
//! simplest admissible choice. Admissibility (the documented / observed preconditions of the
//! operators) is enforced by construction: there is no rejection sampling.
use crate::obs::DelaySpec;
use crate::rec::{Agg, FilterFn, FlatFn, MapFn, Rec};
use crate::run::Layout;
use crate::spec::*;

pub struct Chooser<'a> {
    data: &'a [u16],
    pos: usize,
}

impl<'a> Chooser<'a> {
    pub fn new(data: &'a [u16]) -> Self {
        Chooser { data, pos: 0 }
    }
    pub fn next(&mut self) -> u16 {
        let v = self.data.get(self.pos).copied().unwrap_or(0);
        self.pos += 1;
        v
    }
    pub fn exhausted(&self) -> bool {
        self.pos >= self.data.len()
    }
    /// Monotone map of the next choice to `0..n`.
    pub fn below(&mut self, n: usize) -> usize {
        if n <= 1 {
            self.next();
            return 0;
        }
        ((self.next() as usize) * n) >> 16
    }
    pub fn range(&mut self, lo: i64, hi: i64) -> i64 {
        lo + self.below((hi - lo + 1).max(1) as usize) as i64
    }
    pub fn flag(&mut self, num: usize, den: usize) -> bool {
        // true with probability num/den, false for small choices
        self.below(den) >= den - num
    }
    pub fn weighted(&mut self, w: &[u32]) -> usize {
        let tot: u32 = w.iter().sum();
        if tot == 0 {
            self.next();
            return 0;
        }
        let mut x = ((self.next() as u64 * tot as u64) >> 16) as u32;
        for (i, &wi) in w.iter().enumerate() {
            if x < wi {
                return i;
            }
            x -= wi;
        }
        w.len() - 1
    }
}

/// Generation profile: weights of the stage kinds and global switches.
#[derive(Clone, Debug)]
pub struct Profile {
    pub name: &'static str,
    pub max_stages: usize,
    pub max_input: usize,
    pub w_simple: u32,
    pub w_repart: u32,
    pub w_keyed_agg: u32,
    pub w_global_agg: u32,
    pub w_window: u32,
    pub w_fork: u32,
    pub w_diamond: u32,
    pub w_with: u32,
    pub w_route: u32,
    pub w_replay: u32,
    pub w_iterate: u32,
    pub w_batch: u32,
    pub w_broadcast: u32,
    /// weights of merge / zip / join inside binary combinators
    pub w_comb: [u32; 3],
    /// generate forward edges that narrow to 1 < n < producers replicas (known finding F1)
    pub allow_narrowing: bool,
    pub pads: bool,
    /// prefer sequential (single replica, deterministic order) sources
    pub prefer_iter_source: bool,
    pub small_batches: bool,
    /// weights of the delay selector kinds (link, replica, every k-th message, inbound of a host)
    pub w_delay: [u32; 4],
    /// probability (in quarters) that a configuration injects delays
    pub delay_quarters: usize,
    /// probability (in quarters) that a loop body starts with a join of the loop stream with a
    /// state-dependent part of itself (the join inputs change from round to round)
    pub join_in_loop_quarters: usize,
}

impl Profile {
    pub fn base() -> Profile {
        Profile {
            name: "base",
            max_stages: 10,
            max_input: 1500,
            w_simple: 30,
            w_repart: 14,
            w_keyed_agg: 8,
            w_global_agg: 4,
            w_window: 3,
            w_fork: 4,
            w_diamond: 6,
            w_with: 6,
            w_route: 3,
            w_replay: 5,
            w_iterate: 4,
            w_batch: 4,
            w_broadcast: 2,
            w_comb: [4, 1, 6],
            allow_narrowing: true,
            pads: false,
            prefer_iter_source: false,
            small_batches: false,
            w_delay: [3, 3, 3, 2],
            delay_quarters: 2,
            join_in_loop_quarters: 0,
        }
    }
}

#[derive(Clone, Copy, Debug)]
struct St {
    /// an explicit small `batch_mode` is in effect
    small_batch: bool,
    repl: Repl,
    det: bool,
    bound: usize,
    loop_depth: usize,
    in_iterate: bool,
}

const CAP: usize = 200_000;

pub struct Gen<'a, 'p> {
    pub ch: Chooser<'a>,
    pub p: &'p Profile,
    budget: usize,
    /// number of times a stage was replaced because it would have produced a known-finding shape
    pub steered: u32,
}

impl<'a, 'p> Gen<'a, 'p> {
    pub fn new(data: &'a [u16], p: &'p Profile) -> Self {
        Gen {
            ch: Chooser::new(data),
            p,
            budget: 0,
            steered: 0,
        }
    }

    fn value(&mut self, style: usize) -> i64 {
        match style {
            0 => self.ch.range(0, 20),
            1 => self.ch.range(-40, 40),
            2 => self.ch.range(0, 1000),
            _ => {
                let a = self.ch.next() as i64;
                let b = self.ch.next() as i64;
                (a << 16 | b) - (1 << 31)
            }
        }
    }

    pub fn input(&mut self, max: usize) -> Vec<Rec> {
        let n = match self.ch.weighted(&[2, 3, 8, 6, 2]) {
            0 => 0,
            1 => self.ch.range(1, 4) as usize,
            2 => self.ch.range(5, 60) as usize,
            3 => self.ch.range(61, 400.min(max as i64).max(61)) as usize,
            _ => self.ch.range(401.min(max as i64), max as i64) as usize,
        }
        .min(max);
        let style = self.ch.weighted(&[3, 3, 3, 1]);
        // cheap pseudo-random fill driven by two choices, plus a few explicit values up front
        let a = self.ch.next() as u64;
        let b = self.ch.next() as u64;
        let mut out = Vec::with_capacity(n);
        let explicit = n.min(6);
        for _ in 0..explicit {
            out.push(Rec::new(self.value(style)));
        }
        let (lo, span) = match style {
            0 => (0i64, 21u64),
            1 => (-40, 81),
            2 => (0, 1001),
            _ => (-(1i64 << 31), 1u64 << 32),
        };
        for i in explicit..n {
            let h = crate::rec::mix64(a << 32 | b << 16 | i as u64);
            out.push(Rec::new(lo + (h % span) as i64));
        }
        if self.p.pads && n > 0 && self.ch.flag(1, 3) {
            // a few padded elements: vary the frame size
            let cnt = self.ch.range(1, 3) as usize;
            for j in 0..cnt {
                let len = match self.ch.below(3) {
                    0 => 100,
                    1 => 5000,
                    _ => 70_000,
                };
                let idx = (j * 7) % n;
                out[idx].pad = vec![(j as u8).wrapping_add(1); len];
            }
        }
        out
    }

    pub fn source(&mut self, max: usize) -> (SourceSpec, St) {
        let w = if self.p.prefer_iter_source { [6, 2, 1] } else { [3, 5, 2] };
        match self.ch.weighted(&w) {
            0 => {
                let v = self.input(max);
                let st = St { small_batch: false, repl: Repl::One, det: true, bound: v.len(), loop_depth: 0, in_iterate: false };
                (SourceSpec::Iter(v), st)
            }
            1 => {
                let v = self.input(max);
                let st = St { small_batch: false, repl: Repl::Unlimited, det: false, bound: v.len(), loop_depth: 0, in_iterate: false };
                (SourceSpec::Par(v), st)
            }
            _ => {
                let a = self.ch.range(-30, 30);
                let n = self.ch.range(0, max.min(600) as i64);
                let st = St { small_batch: false, repl: Repl::Unlimited, det: false, bound: n as usize, loop_depth: 0, in_iterate: false };
                (SourceSpec::Range(a, a + n), st)
            }
        }
    }

    fn map_fn(&mut self, in_loop: bool) -> MapFn {
        match self.ch.weighted(&[4, 3, 1, if in_loop { 4 } else { 0 }]) {
            0 => MapFn::Affine(self.ch.range(-3, 3), self.ch.range(-10, 10)),
            1 => MapFn::Rem([1, 2, 3, 5, 7, 16, 64, 1000][self.ch.below(8)]),
            2 => MapFn::Scramble,
            _ => MapFn::AddState,
        }
    }
    fn filter_fn(&mut self) -> FilterFn {
        match self.ch.below(3) {
            0 => FilterFn::ModNe(self.ch.range(2, 5), self.ch.range(0, 1)),
            1 => FilterFn::Less(self.ch.range(-10, 500)),
            _ => FilterFn::GreaterEq(self.ch.range(-10, 100)),
        }
    }
    fn agg(&mut self) -> Agg {
        [Agg::Sum, Agg::Count, Agg::Min, Agg::Max, Agg::Xor][self.ch.below(5)]
    }
    fn keys(&mut self) -> i64 {
        [1, 2, 3, 5, 7, 16, 64][self.ch.below(7)]
    }
    fn batch(&mut self) -> BatchSpec {
        match self.ch.weighted(&[2, 4, 2, 2]) {
            0 => BatchSpec::Single,
            1 => BatchSpec::Fixed(self.ch.range(1, 8) as u32),
            2 => BatchSpec::Fixed([16, 100, 1024, 2048][self.ch.below(4)]),
            _ => BatchSpec::Adaptive([2, 16, 1024][self.ch.below(3)], [1, 5, 50][self.ch.below(3)]),
        }
    }
    fn sink(&mut self) -> SinkKind {
        [
            SinkKind::CollectVec,
            SinkKind::CollectVec,
            SinkKind::CollectCount,
            SinkKind::CollectChannel,
            SinkKind::Collect,
            SinkKind::ForEach,
            SinkKind::CollectVecAll,
        ][self.ch.weighted(&[6, 0, 2, 2, 1, 1, 1])]
    }

    fn comb(&mut self, l: &St, r: &St) -> Combine {
        let zip_ok = l.det && r.det && l.repl == Repl::One && r.repl == Repl::One;
        let join_ok = l.bound.saturating_mul(r.bound) <= CAP;
        let w = [
            self.p.w_comb[0],
            if zip_ok { self.p.w_comb[1] * 6 } else { 0 },
            if join_ok { self.p.w_comb[2] } else { 0 },
            self.p.w_comb[1],
        ];
        match self.ch.weighted(&w) {
            0 => Combine::Merge,
            1 => Combine::Zip,
            3 => Combine::ZipCount,
            _ => {
                let kind = [JoinKind::Inner, JoinKind::Left, JoinKind::Outer][self.ch.below(3)];
                let algo = [
                    JoinAlgo::Shortcut,
                    JoinAlgo::HashHash,
                    JoinAlgo::HashSortMerge,
                    JoinAlgo::BcHash,
                    JoinAlgo::BcSortMerge,
                    JoinAlgo::Keyed,
                    JoinAlgo::KeyedAfterAgg,
                ][self.ch.below(7)];
                let k = [1, 3, 7, 16, 64, 1000][self.ch.weighted(&[1, 2, 3, 3, 3, 2])];
                Combine::Join(kind, algo, k)
            }
        }
    }

    /// State after combining, and the adaptors both sides need.
    fn after_comb(&mut self, comb: &Combine, l: &mut Vec<Stage>, ls: St, r: &mut Vec<Stage>, rs: St) -> St {
        let mut ls = ls;
        let mut rs = rs;
        match comb {
            Combine::Merge | Combine::Zip | Combine::ZipCount => {
                if ls.repl != rs.repl {
                    // forward inputs need equal replication: what a user would do is shuffle
                    if ls.repl != Repl::Unlimited {
                        l.push(Stage::Shuffle);
                        ls.repl = Repl::Unlimited;
                        ls.det = false;
                    }
                    if rs.repl != Repl::Unlimited {
                        r.push(Stage::Shuffle);
                        rs.repl = Repl::Unlimited;
                        rs.det = false;
                    }
                }
            }
            Combine::Join(_, algo, _) => {
                if matches!(algo, JoinAlgo::BcHash | JoinAlgo::BcSortMerge) {
                    // left is a forward edge into a block with the left's replication: fine
                }
            }
        }
        match comb {
            Combine::Merge => St {
                repl: ls.repl,
                det: false,
                bound: ls.bound.saturating_add(rs.bound),
                ..ls
            },
            Combine::Zip => St {
                repl: Repl::One,
                det: true,
                bound: ls.bound.min(rs.bound),
                ..ls
            },
            Combine::ZipCount => St {
                repl: Repl::One,
                det: false,
                bound: ls.bound.min(rs.bound),
                ..ls
            },
            Combine::Join(_, algo, _) => St {
                repl: if matches!(algo, JoinAlgo::BcHash | JoinAlgo::BcSortMerge) {
                    ls.repl
                } else {
                    Repl::Unlimited
                },
                det: false,
                bound: ls.bound.saturating_mul(rs.bound.max(1)).max(ls.bound.saturating_add(rs.bound)).min(CAP * 4),
                ..ls
            },
        }
    }

    fn loop_spec(&mut self, st: St, iterate: bool) -> (LoopSpec, St) {
        let max = self.ch.weighted(&[1, 2, 4, 4, 2, 1, 1]) as u8; // 0..=6
        let stop_after = self.ch.range(1, 7) as u8;
        let stop_acc = if self.ch.flag(1, 4) {
            Some(self.ch.range(0, 5000))
        } else {
            None
        };
        let init_acc = self.ch.range(-5, 5);
        let body_st = St {
            small_batch: st.small_batch,
            repl: Repl::Unlimited,
            det: false,
            bound: st.bound,
            loop_depth: st.loop_depth + 1,
            in_iterate: st.in_iterate || iterate,
        };
        let body_budget = 1 + self.ch.below(4);
        let saved = self.budget;
        self.budget = body_budget.min(saved.max(1));
        let (mut body, bst) = if self.p.join_in_loop_quarters > 0 && self.ch.flag(self.p.join_in_loop_quarters, 4) && st.bound <= 400 {
            // a body whose join inputs differ in every round
            let kind = [JoinKind::Inner, JoinKind::Left, JoinKind::Outer][self.ch.weighted(&[1, 2, 4])];
            let algo = [JoinAlgo::Shortcut, JoinAlgo::HashHash, JoinAlgo::HashSortMerge, JoinAlgo::BcHash, JoinAlgo::BcSortMerge, JoinAlgo::Keyed]
                [self.ch.weighted(&[1, 2, 5, 1, 3, 1])];
            let k = [3i64, 7, 16, 64][self.ch.below(4)];
            let m = [3i64, 5, 8][self.ch.below(3)];
            let (l, r) = if self.ch.flag(1, 2) {
                (vec![Stage::Filter(FilterFn::StateMod(m))], vec![])
            } else {
                (vec![], vec![Stage::Filter(FilterFn::StateMod(m))])
            };
            let mut b = vec![Stage::Diamond { left: l, right: r, comb: Combine::Join(kind, algo, k) }, Stage::Map(MapFn::Rem(1000))];
            if iterate {
                b.push(Stage::Shuffle);
            }
            let mut bs = body_st;
            // a self join on k keys: at most |in|^2 / 1, kept small by the bound above
            bs.bound = bs.bound.saturating_mul(bs.bound.max(1)).min(CAP);
            (b, bs)
        } else if iterate && self.ch.flag(1, 3) {
            // a body chained entirely in the `Iterate` block (no block on the cycle runs at its own
            // pace): the shape for which small batches are not excluded by the known finding F7
            let n = 1 + self.ch.below(3);
            let mut b = Vec::new();
            let mut bs = body_st;
            for _ in 0..n {
                b.push(match self.ch.weighted(&[3, 2, 3]) {
                    0 => Stage::Map(self.map_fn(true)),
                    1 => Stage::Filter(self.filter_fn()),
                    _ => {
                        let f = FlatFn::Dup(self.ch.range(1, 3) as u8);
                        if bs.bound <= 400 {
                            bs.bound = bs.bound.saturating_mul(f.max_fanout());
                            Stage::FlatMap(f)
                        } else {
                            Stage::Map(MapFn::Affine(1, 1))
                        }
                    }
                });
            }
            (b, bs)
        } else {
            self.stages(body_st)
        };
        self.budget = saved.saturating_sub(body.len());
        let mut out_bound = bst.bound;
        if iterate && bst.repl != Repl::Unlimited {
            // the feedback edge is a forward edge towards the Unlimited `Iterate` block
            body.push(Stage::Shuffle);
        }
        if iterate {
            // growth compounds over the rounds
            let g = (out_bound / st.bound.max(1)).max(1);
            let mut b = st.bound.max(1);
            for _ in 0..max.max(1) {
                b = b.saturating_mul(g);
            }
            out_bound = b;
        }
        let l = LoopSpec { max, stop_after, stop_acc, init_acc, body };
        (
            l,
            St {
                small_batch: st.small_batch,
                repl: Repl::Unlimited,
                det: false,
                bound: if iterate { out_bound } else { 1 },
                loop_depth: st.loop_depth,
                in_iterate: st.in_iterate,
            },
        )
    }

    /// Generate a stage list for a stream in state `st`; returns the stages and the final state.
    fn stages(&mut self, st: St) -> (Vec<Stage>, St) {
        let mut st = st;
        let mut out: Vec<Stage> = Vec::new();
        while self.budget > 0 && !self.ch.exhausted() {
            self.budget -= 1;
            let p = self.p;
            let in_loop = st.loop_depth > 0;
            let w = [
                p.w_simple,
                p.w_repart,
                p.w_keyed_agg,
                p.w_global_agg,
                // count windows depend on the per-key arrival order, except with the `count`
                // aggregator: that one is generated everywhere (also inside loop bodies)
                if st.det && !in_loop { p.w_window * 4 } else { p.w_window },
                if in_loop { 0 } else { p.w_fork },
                p.w_diamond,
                p.w_with,
                p.w_route,
                if st.loop_depth < 2 { p.w_replay } else { 0 },
                if st.loop_depth == 0 { p.w_iterate } else { 0 },
                if st.in_iterate && std::env::var("VERIF_NO_F7_EXCLUSION").is_err() { 0 } else { p.w_batch },
                if st.bound.saturating_mul(16) <= CAP { p.w_broadcast } else { 0 },
            ];
            match self.ch.weighted(&w) {
                0 => {
                    let s = match self.ch.weighted(&[5, 3, 2, 1]) {
                        0 => Stage::Map(self.map_fn(in_loop)),
                        1 => Stage::Filter(self.filter_fn()),
                        2 => {
                            let f = match self.ch.below(2) {
                                0 => FlatFn::Dup(self.ch.range(0, 3) as u8),
                                _ => FlatFn::Fan(self.ch.range(1, 4) as u8),
                            };
                            if st.bound.saturating_mul(f.max_fanout().max(1)) > CAP || (st.in_iterate && f.max_fanout() > 1 && st.bound > 400) {
                                Stage::Map(MapFn::Affine(1, 1))
                            } else {
                                st.bound = st.bound.saturating_mul(f.max_fanout().max(1));
                                Stage::FlatMap(f)
                            }
                        }
                        _ => Stage::FilterMap(self.filter_fn(), self.map_fn(false)),
                    };
                    out.push(s);
                }
                1 => {
                    // repartitioning
                    match self.ch.weighted(&[5, 3, 3, 3]) {
                        0 => {
                            out.push(Stage::Shuffle);
                            st.repl = Repl::Unlimited;
                            st.det = false;
                        }
                        1 => {
                            let k = self.keys();
                            let f = self.map_fn(false);
                            out.push(Stage::KeyedMap(k, f));
                            st.repl = Repl::Unlimited;
                            st.det = false;
                        }
                        2 => {
                            // `repartition_by`: an all-to-all (key based) edge into a block with an
                            // explicit replication
                            let r = match self.ch.weighted(&[2, 4, 3, 2]) {
                                0 => Repl::One,
                                1 => Repl::Limited(self.ch.range(1, 5) as u8),
                                2 => Repl::Host,
                                _ => Repl::Unlimited,
                            };
                            out.push(Stage::Repartition(r, self.keys()));
                            st.repl = r;
                            st.det = false;
                        }
                        _ => {
                            // forward edge. Precondition (next_strategy.rs: "otherwise the execution
                            // graph is malformed"): the consumer has one replica or exactly the
                            // replicas of the producer. Narrowing to 1 < n < producers is the known
                            // finding F1 and only generated on request.
                            let narrow = self.p.allow_narrowing && st.repl == Repl::Unlimited && self.ch.flag(1, 2);
                            let r = if narrow {
                                if self.ch.flag(1, 2) { Repl::Host } else { Repl::Limited(self.ch.range(2, 4) as u8) }
                            } else if self.ch.flag(1, 2) {
                                Repl::One
                            } else {
                                st.repl
                            };
                            out.push(Stage::Replicate(r));
                            // a single producer keeps the order
                            st.det = st.det && st.repl == Repl::One;
                            st.repl = r;
                        }
                    }
                }
                2 => {
                    let forms = [
                        KeyedForm::GroupByThenFold,
                        KeyedForm::GroupByThenReduce,
                        KeyedForm::GroupByFold,
                        KeyedForm::GroupByReduce,
                        KeyedForm::GroupBySum,
                        KeyedForm::GroupByCount,
                        KeyedForm::GroupByMin,
                        KeyedForm::GroupByMax,
                        KeyedForm::GroupByAvg,
                        KeyedForm::KeyedRichMap,
                    ];
                    let mut form = forms[self.ch.below(forms.len())];
                    if in_loop && form == KeyedForm::KeyedRichMap {
                        form = KeyedForm::GroupByThenFold;
                    }
                    let k = self.keys();
                    let agg = self.agg();
                    out.push(Stage::KeyedAgg { form, k, agg });
                    st.repl = Repl::Unlimited;
                    st.det = false;
                    if form != KeyedForm::KeyedRichMap {
                        st.bound = st.bound.min(k as usize);
                    }
                }
                3 => {
                    let form = [GlobalForm::Fold, GlobalForm::Reduce, GlobalForm::FoldAssoc, GlobalForm::ReduceAssoc]
                        [self.ch.below(4)];
                    let agg = self.agg();
                    out.push(Stage::GlobalAgg { form, agg });
                    st.repl = Repl::One;
                    st.det = true;
                    st.bound = 1;
                }
                4 => {
                    let n = self.ch.range(1, 6) as u8;
                    let s = self.ch.range(1, n as i64) as u8;
                    let aggr = if st.det && !in_loop {
                        [
                            WinAggr::Collect,
                            WinAggr::Fold,
                            WinAggr::Sum,
                            WinAggr::Count,
                            WinAggr::Min,
                            WinAggr::Max,
                            WinAggr::First,
                            WinAggr::Last,
                        ][self.ch.below(8)]
                    } else {
                        self.ch.next();
                        WinAggr::Count
                    };
                    out.push(Stage::CountWindow { k: self.keys(), n, s, exact: self.ch.flag(1, 2), aggr });
                    st.repl = Repl::Unlimited;
                    st.det = false;
                }
                5 => {
                    let saved = self.budget;
                    self.budget = self.ch.below(3).min(saved);
                    let (branch, _) = self.stages(st);
                    self.budget = saved.saturating_sub(branch.len());
                    out.push(Stage::Fork { branch, sink: self.sink() });
                }
                6 => {
                    let saved = self.budget;
                    self.budget = self.ch.below(3).min(saved);
                    let (mut l, ls) = self.stages(st);
                    self.budget = self.ch.below(3).min(saved);
                    let (mut r, rs) = self.stages(st);
                    self.budget = saved.saturating_sub(l.len() + r.len());
                    let comb = self.comb(&ls, &rs);
                    st = self.after_comb(&comb, &mut l, ls, &mut r, rs);
                    out.push(Stage::Diamond { left: l, right: r, comb });
                }
                7 => {
                    let (source, mut ost) = self.source(self.p.max_input.min(600));
                    ost.in_iterate = st.in_iterate;
                    let saved = self.budget;
                    self.budget = self.ch.below(3).min(saved);
                    let (mut ostages, ost) = self.stages(ost);
                    self.budget = saved.saturating_sub(ostages.len());
                    let comb = self.comb(&st, &ost);
                    let depth = st.loop_depth;
                    let in_it = st.in_iterate;
                    let mut mine = Vec::new();
                    st = self.after_comb(&comb, &mut mine, st, &mut ostages, ost);
                    st.loop_depth = depth;
                    st.in_iterate = in_it;
                    out.extend(mine);
                    out.push(Stage::With { other: Box::new(Pipe { source, stages: ostages }), comb });
                }
                8 => {
                    let n = 1 + self.ch.below(4);
                    let preds: Vec<u8> = (0..n).map(|_| self.ch.below(6) as u8).collect();
                    let mut branches = Vec::new();
                    let mut bound: usize = 0;
                    let saved = self.budget;
                    for _ in 0..n {
                        self.budget = self.ch.below(2).min(saved);
                        let (b, bs) = self.stages(st);
                        bound = bound.saturating_add(bs.bound);
                        branches.push(b);
                    }
                    self.budget = saved.saturating_sub(branches.iter().map(|b| b.len()).sum());
                    out.push(Stage::Route { preds, branches });
                    st.repl = Repl::Unlimited;
                    st.det = false;
                    st.bound = bound;
                }
                c @ (9 | 10) => {
                    let iterate = c == 10;
                    if st.repl != Repl::Unlimited {
                        // loops need an input with unlimited replication
                        out.push(Stage::Shuffle);
                        st.repl = Repl::Unlimited;
                        st.det = false;
                    }
                    let (l, nst) = self.loop_spec(st, iterate);
                    if iterate && st.small_batch && amplifying_body(&l.body) && std::env::var("VERIF_NO_F7_EXCLUSION").is_err() {
                        // open known finding F7 (C04): a body with a block that produces messages at
                        // its own pace (side input, broadcast, repartitioning, ...) deadlocks with
                        // small batches: keep the batches around such an `iterate` large
                        self.steered += 1;
                        out.push(Stage::Batch(BatchSpec::Fixed(1024)));
                        st.small_batch = false;
                    }
                    out.push(if iterate { Stage::Iterate(l) } else { Stage::Replay(l) });
                    let small = st.small_batch;
                    st = nst;
                    st.small_batch = small;
                }
                11 => {
                    let b = self.batch();
                    st.small_batch = b.size() < 256;
                    out.push(Stage::Batch(b));
                }
                _ => {
                    out.push(Stage::Broadcast);
                    st.repl = Repl::Unlimited;
                    st.det = false;
                    st.bound = st.bound.saturating_mul(16);
                }
            }
        }
        (out, st)
    }

    /// Decode a whole job.
    pub fn job(&mut self) -> JobSpec {
        self.budget = 1 + self.ch.below(self.p.max_stages);
        let (source, st) = self.source(self.p.max_input);
        let (stages, _) = self.stages(st);
        let sink = self.sink();
        JobSpec { pipe: Pipe { source, stages }, sink }
    }

    pub fn layout(&mut self, thorough: bool) -> Layout {
        match self.ch.weighted(&[5, 5]) {
            0 => Layout::Local(self.ch.range(1, 8) as u64),
            _ => {
                let n = 1 + self.ch.weighted(&[1, 4, 4, if thorough { 3 } else { 2 }]);
                Layout::Hosts((0..n).map(|_| self.ch.range(1, 4) as u64).collect())
            }
        }
    }

    pub fn delays(&mut self) -> Option<DelaySpec> {
        if self.ch.flag(self.p.delay_quarters, 4) {
            let n = 1 + self.ch.below(2);
            let seed = self.ch.next() as u64;
            let slow = (0..n)
                .map(|_| {
                    let kind = self.ch.weighted(&self.p.w_delay.clone()) as u8;
                    (
                        kind,
                        self.ch.range(0, 12) as u64,
                        self.ch.range(0, 12) as u64,
                        [200u32, 1000, 3000][self.ch.below(3)],
                    )
                })
                .collect();
            Some(DelaySpec { seed, slow })
        } else {
            None
        }
    }

    /// `has_iterate`: the job contains an `iterate` whose body is amplifying (see `amplifying_iterate`)
    pub fn config(&mut self, thorough: bool, has_iterate: bool) -> ConfigSpec {
        let layout = self.layout(thorough);
        let mut batch = if self.ch.flag(2, 3) || self.p.small_batches {
            Some(self.batch())
        } else {
            None
        };
        if has_iterate && std::env::var("VERIF_NO_F7_EXCLUSION").is_err() {
            // known finding F7 (cyclic back-pressure in `iterate`): keep batches large
            if let Some(b) = batch {
                if b.size() < 256 {
                    self.steered += 1;
                    batch = Some(BatchSpec::Fixed(1024));
                }
            }
        }
        let delays = self.delays();
        ConfigSpec { layout, batch, delays }
    }
}

/// Smallest batch size used anywhere in the stage list (explicit `batch_mode` stages).
pub fn min_explicit_batch(stages: &[Stage]) -> Option<u32> {
    let mut m: Option<u32> = None;
    fn walk(stages: &[Stage], m: &mut Option<u32>) {
        for s in stages {
            match s {
                Stage::Batch(b) => *m = Some(m.map_or(b.size(), |x| x.min(b.size()))),
                Stage::Fork { branch, .. } => walk(branch, m),
                Stage::Diamond { left, right, .. } => {
                    walk(left, m);
                    walk(right, m)
                }
                Stage::With { other, .. } => walk(&other.stages, m),
                Stage::Route { branches, .. } => branches.iter().for_each(|b| walk(b, m)),
                Stage::Replay(l) | Stage::Iterate(l) => walk(&l.body, m),
                _ => {}
            }
        }
    }
    walk(stages, &mut m);
    m
}

/// A loop body is *amplifying* when some block on the cycle Iterate -> body -> feedback produces
/// messages at its own pace: anything but operators chained in the `Iterate` block itself. With
/// small batches such a body runs into the open known finding F7 (cyclic back-pressure).
pub fn amplifying_body(body: &[Stage]) -> bool {
    body.iter().any(|s| !matches!(s, Stage::Map(_) | Stage::Filter(_) | Stage::FilterMap(..) | Stage::FlatMap(_)))
}

/// Does the job contain an `iterate` with an amplifying body?
pub fn amplifying_iterate(stages: &[Stage]) -> bool {
    stages.iter().any(|s| match s {
        Stage::Iterate(l) => amplifying_body(&l.body),
        Stage::Replay(l) => amplifying_iterate(&l.body),
        Stage::Fork { branch, .. } => amplifying_iterate(branch),
        Stage::Diamond { left, right, .. } => amplifying_iterate(left) || amplifying_iterate(right),
        Stage::With { other, .. } => amplifying_iterate(&other.stages),
        Stage::Route { branches, .. } => branches.iter().any(|b| amplifying_iterate(b)),
        _ => false,
    })
}
