#![no_main]
//! libFuzzer target for C12: bytes -> choice sequence -> history -> CountWindowManager vs model.
use libfuzzer_sys::fuzz_target;
use vcore::checks::c12;

fuzz_target!(|data: &[u8]| {
    let choices: Vec<u16> = data.chunks(2).map(|c| u16::from_le_bytes([c[0], *c.get(1).unwrap_or(&0)])).collect();
    let h = c12::decode(&choices);
    if let Err(m) = c12::check_history(&h) {
        panic!("C12 violated: {m}\nhistory: {h:?}");
    }
});
