#![no_main]
//! libFuzzer target for C15 (range splitting).
use libfuzzer_sys::fuzz_target;
use vcore::checks::c15;

fuzz_target!(|data: &[u8]| {
    let choices: Vec<u16> = data.chunks(2).map(|c| u16::from_le_bytes([c[0], *c.get(1).unwrap_or(&0)])).collect();
    let c = c15::decode_range(&choices);
    if let Err((clause, m)) = c15::check_range(&c) {
        panic!("C15 violated [{clause}]: {m}\ncase: {c:?}");
    }
});
