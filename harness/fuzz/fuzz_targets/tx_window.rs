#![no_main]
//! libFuzzer target for C13 (transaction windows).
use libfuzzer_sys::fuzz_target;
use vcore::checks::c13;

fuzz_target!(|data: &[u8]| {
    let choices: Vec<u16> = data.chunks(2).map(|c| u16::from_le_bytes([c[0], *c.get(1).unwrap_or(&0)])).collect();
    let ops = c13::decode_tx(&choices);
    if let Err(m) = c13::check_tx(&ops) {
        panic!("C13 violated (transaction): {m}\nhistory: {ops:?}");
    }
});
