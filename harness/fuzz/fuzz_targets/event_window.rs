#![no_main]
//! libFuzzer target for C13 (event-time windows).
use libfuzzer_sys::fuzz_target;
use vcore::checks::c13;

fuzz_target!(|data: &[u8]| {
    let choices: Vec<u16> = data.chunks(2).map(|c| u16::from_le_bytes([c[0], *c.get(1).unwrap_or(&0)])).collect();
    let h = c13::decode(&choices, &c13::GenOpts { monotone_per_key: false });
    if let Err((clause, m)) = c13::check_history(&h) {
        panic!("C13 violated [{clause}]: {m}\nhistory: {h:?}");
    }
});
