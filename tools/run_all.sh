#!/bin/bash
# tools/run_all.sh [quick|thorough] : run every check once, print the summary, known-finding and violation lines
cd "$(dirname "$0")/.."
tier=${1:-quick}
for id in C01 C02 C03 C04 C05 C06 C07 C08 C09 C10 C11 C12 C13 C14 C15 C16 C17 C18 C19 C20; do
  ./check $id --tier $tier 2>&1 | grep -v '^proptest' | cut -c1-400
  echo "   exit=$? ($id)"
done
