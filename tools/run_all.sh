#!/bin/bash
# tools/run_all.sh [quick|thorough] : run every check once, print one line per check
cd "$(dirname "$0")/.."
tier=${1:-quick}
for id in C01 C02 C03 C04 C05 C06 C07 C08 C09 C10 C11 C12 C13 C14 C15 C16 C17 C18 C19 C20; do
  out=$(./check $id --tier $tier 2>&1 | grep -v '^proptest'); rc=$?
  echo "$out" | grep -E "^(KNOWN-FINDING|VIOLATION|$id )" | cut -c1-220
done
