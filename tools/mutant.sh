#!/bin/bash
# tools/mutant.sh <patch.diff> <ID>...   apply a patch to /repo, run the quick checks, revert.
set -u
P="$1"; shift
cd /repo || exit 2
if ! git apply --check "$P" 2>/dev/null; then echo "patch does not apply"; exit 2; fi
git apply "$P"
trap 'git -C /repo checkout -- . ; git -C /repo clean -fdq src tests 2>/dev/null' EXIT
for id in "$@"; do
  echo "== $id"
  (cd /verif && timeout 1500 ./check "$id" --tier quick 2>&1 | grep -v '^proptest' | tail -4)
done
