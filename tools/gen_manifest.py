#!/usr/bin/env python3
"""Regenerates /verif/MANIFEST.json from the table below (kept next to the checks it describes)."""
import json
PBT="property-based testing (proptest choice sequences decoded into jobs) on the real engine"
checks={
 "C01":("exploration","random typed pipelines run on the real engine under several deployments each and compared, sink by sink, with a sequential reference interpreter","schedules sampled, not enumerated; operator algebra restricted to the deterministic families of DESIGN.md §3",PBT+"; differential against a reference interpreter, metamorphic across deployments"),
 "C02":("exploration","every batch sent on every link of generated jobs is matched, through the observer hook, against what the consumer receives (order, content digest, endpoint); nothing may be left over","interleavings inside the mux/demux threads are only perturbed (delays), not owned",PBT+"; invariant over the observed per-link send/receive history"),
 "C04":("exploration","generated jobs (loops, side inputs, diamonds, empty and over-capacity inputs) must return from execute_blocking on every host with every worker ended and every sink completed exactly once; deadlocks are diagnosed by a quiescence watchdog","liveness by bounded observation (10 s / 20 s of total silence); schedules sampled",PBT+"; termination/quiescence oracle over worker and channel events"),
 "C05":("exploration","probes after every stage of generated jobs: protocol grammar per replica, iteration alignment of stamped elements, per-iteration multisets equal to the reference","probes sit at stage boundaries of the public API, not between the operators a stage expands to",PBT+"; grammar automaton + per-round differential against the reference interpreter"),
 "C07":("exploration","all aggregation forms on generated inputs/partitionings compared per iteration with a sequential fold per key","functions drawn from associative-commutative families",PBT+"; differential against a sequential fold, metamorphic two-phase vs. shuffle-then-aggregate"),
 "C08":("exploration","all join algorithms/variants on generated multisets, with delay injection on the input links, compared with a nested-loop relational join","arrival interleavings are biased by delays, not enumerated",PBT+"; differential against a nested-loop join"),
 "C09":("exploration","split/route/merge/broadcast/zip combinations compared per probe and per sink with the reference","zip only on sequential inputs (positional semantics)",PBT+"; differential against the reference interpreter"),
 "C10":("exploration","loop jobs: every element at every body probe is checked against the state the sequential loop defines for its round; rounds, final state and outputs equal the reference","the stale/premature read race is only reachable through sampled schedules and delay injection",PBT+"; round/state alignment invariant + differential against a sequential loop"),
 "C11":("exploration","loop jobs with side inputs: per round the body sees the complete side input, the job terminates, one Terminate per replica","schedules sampled",PBT+"; per-round differential against the reference interpreter"),

 "C12":("exploration","CountWindowManager driven call by call through the public window API against the literal sliding-group model, plus end-to-end count-window jobs with every aggregator compared with the reference","per-key arrival order of the end-to-end jobs is the source order (single producer)","property-based testing: generated operation histories against a reference model (stateful/model-based), plus differential jobs"),
 "C13":("exploration","EventTimeWindowManager and TransactionWindowManager driven through the public window API exactly as the keyed window operator does, judged by validity predicates (assignment interval, coverage 1..ceil(size/slide), firing time) / a literal transaction model","single-threaded direct drive; several upstream replicas are covered by C06's jobs","property-based testing: generated timestamp/watermark histories against validity predicates and a reference model"),
 "C15":("exploration","range splitting of all ten integer types checked as a partition on bounds only; generated text/CSV files read through real jobs on 1..24 replicas and multi-host layouts compared with a sequential split; sequential sources compared in order","CSV records do not contain the terminator inside quotes","property-based testing: partition predicate over generated ranges; differential against a sequential reader"),
 "C19":("exploration","execution graph and address map dumped per host id (hook H2) for random job structures x host layouts; equality across hosts and a placement/link/address model","forward/all-to-all kind and declared replication are read from the dump","property-based testing over generated (job structure, layout) pairs against a placement/link/address model and cross-host equality"),
}
all_ids=[f"C{n:02d}" for n in range(1,21)]
m={
 "version":1,
 "setup_cmd":"cd /verif/harness && CARGO_NET_OFFLINE=true cargo build --release --offline",
 "hooks":{"guard":"cargo feature `verif` of the renoir crate","enable":"the harness crate depends on renoir by path (/repo) with features=[\"verif\"]; every ./check rebuilds it from the working tree","baseline_off_cmd":"cd /repo && cargo test --workspace --no-fail-fast --offline","source_commits":["0cdc1cd","91d9a42"],"add_only":True},
 "engines":[{"name":"vrun","path":"harness","serves_properties":sorted(checks),"kind_free_text":"proptest-driven job fuzzer on the real engine with reference interpreter, observer hooks, monitors and watchdog"}],
 "checks":[{"property_id":k,"quick_cmd":f"./check {k} --tier quick","thorough_cmd":f"./check {k} --tier thorough","evidence_file":f"evidence/{k}.json","replay_cmd_template":f"./check {k} --replay {{path}}","engine":"vrun",
   "level_claimed":{"category":v[0],"text":v[1],"design_ref":f"DESIGN.md §4 {k}"},"level_note":v[2],"technique":v[3]} for k,v in sorted(checks.items())],
 "not_applicable":[{"property_id":p,"reason":"check not built yet in this session (planned in DESIGN.md); not claimed"} for p in all_ids if p not in checks],
 "notes":"exit 2 of a check means inconclusive (build failure, shard crash); known findings are listed in known_findings.json"
}
json.dump(m,open('/verif/MANIFEST.json','w'),indent=1)
